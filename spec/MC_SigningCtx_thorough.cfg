SPECIFICATION FairSpec
CONSTANTS
  N = 3
  K = 1
INVARIANTS MutexOK NoRace SeenConfigured ReturnedConfigured CallsAccounted Emit
PROPERTIES Termination Monotone
