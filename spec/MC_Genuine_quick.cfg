SPECIFICATION Spec
CONSTANTS
  C14Ns = {"exc", "exccom", "c14n11", "c14n11com", "c14n10", "c14n10com"}
  Digests = {"sha1", "sha256", "sha384", "sha512"}
  SigAlgs = {"rsa-sha1", "rsa-sha256", "rsa-sha384", "rsa-sha512", "ecdsa-sha1", "ecdsa-sha256", "ecdsa-sha384", "ecdsa-sha512"}
  MaxAssertions = 3
INVARIANTS RunAgrees Emit
PROPERTIES Terminates
CHECK_DEADLOCK FALSE
