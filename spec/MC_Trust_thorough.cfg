SPECIFICATION Spec
CONSTANTS
  Nows = {0,1,2,3,4,5,6,7,8,9,10,11,12,13,14,15,16,17,18,19,20}
  Pads = {0, 2, 9, 12}
  Kinds = {"ssoRoot", "ssoAssert", "logoutReq", "logoutResp"}
INVARIANTS InvC02 InvC04 InvC10 Emit
PROPERTIES Frozen Terminates
CHECK_DEADLOCK FALSE
