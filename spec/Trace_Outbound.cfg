SPECIFICATION Spec
CONSTANTS
  StrClasses = {"plain"}
  HoursSet = {"0"}
POSTCONDITION TraceAccepted
CHECK_DEADLOCK FALSE
