SPECIFICATION Spec
CONSTANTS
  OutOps = {"authnDoc", "logoutReqDoc", "logoutRespDoc", "redirectAuthn", "redirectLogout", "postAuthn", "postLogoutResp", "metadata"}
  InOps = {"validateRaw", "validateDeflate", "validateEnc", "infoDeflate", "predecodeDeflate", "logoutRespDeflate", "logoutReq", "refusedDeflate", "twoBad"}
  ScOps = {"authnDoc", "logoutReqDoc", "logoutRespDoc", "redirectAuthn", "redirectLogout"}
  Gates = {"sc.rlock", "sc.lock"}
  MaxMix = 2
INVARIANTS InvC17 RunAgrees Emit
PROPERTIES Frozen Terminates
CHECK_DEADLOCK FALSE
