------------------------------ MODULE Garbage ------------------------------
(***************************************************************************)
(* Totality of the decoding entry points (C09).  TLC enumerates the        *)
(* *classes* of hostile input and where they strike; the driver realises   *)
(* each with seeded octets (and, beyond what is enumerated here, sweeps    *)
(* truncations and bit flips over every offset in the thorough tier).      *)
(* sp = "bare" is a provider with an empty certificate store, no keys and  *)
(* no clock.                                                               *)
(* Beyond the classes enumerated below the driver adds, as cases of their  *)
(* own that the same monitors judge: "alg_slot" (each place where a        *)
(* message names an algorithm x every algorithm identifier found in the    *)
(* library source under check, in XML-DSig, XML-Enc and RFC 6931),         *)
(* "decl_encoding" (every genuine message behind an XML declaration that   *)
(* names one of 28 encodings, raw and DEFLATE) and "fuzz" (inputs kept by  *)
(* a coverage-guided generator).                                           *)
(***************************************************************************)
EXTENDS Naturals, Sequences, FiniteSets, TLC

CONSTANTS Positions

Entries == {"validate", "info", "predecodeResp", "predecodeLogout", "logoutReq", "logoutResp", "decryptBytes", "decrypt"}
Bases   == {"sso", "ssoenc", "logoutReq", "logoutResp"}
\* classes that do not depend on a genuine base message
Free == {"empty", "bad_b64_chars", "bad_b64_padding", "random_bytes", "deflate_of_garbage", "truncated_deflate", "not_xml", "no_root",
         "wrong_root", "doctype_entities", "invalid_utf8", "undeclared_prefix", "colon_names", "deep_nesting", "wide_tree",
         "many_attributes", "huge_text", "xmlns_abuse", "only_text"}
\* classes that damage a genuine message at a position (0 = start .. Positions = end)
Positional == {"truncate", "truncate_deflated", "bitflip", "bitflip_deflated", "delete_byte", "insert_lt", "dup_region"}
\* classes that damage the structure of the signature / encryption elements of a genuine message
Structural == {"sig_no_signedinfo", "sig_two_signedinfo", "sig_no_value", "sig_empty_uri", "sig_hash_uri", "sig_bad_digest_b64",
               "sig_unknown_c14n", "sig_unknown_sigalg", "sig_unknown_digest", "sig_empty_keyinfo", "sig_garbage_cert", "sig_no_reference",
               "sig_no_transforms", "enc_no_cipherdata", "enc_no_method", "enc_empty_key", "enc_two_keys", "enc_nested_enc"}

Inputs == [entry : Entries, class : Free, base : {"sso"}, pos : {0}] \cup
          [entry : Entries, class : Positional, base : Bases, pos : 0..Positions] \cup
          [entry : Entries, class : Structural, base : {"sso", "ssoenc"}, pos : {0}]
\* "maxlimit" / "neglimit": a normal provider whose MaximumDecompressedBodySize is the largest int64 / negative
Cfgs == [sp : {"normal", "bare", "maxlimit", "neglimit"}]

\* no prediction of accept/reject is made here: the property is totality
ModelOut(cfg, in) == [res |-> "any"]

\* o: [res: accept | reject | panic | nilnil | both]
C09_OK(cfg, in, o) == o.res \in {"accept", "reject"}
\* with an empty store nothing that needs a signature is ever accepted
C02_OK(cfg, in, o) == (cfg.sp = "bare" /\ in.entry \in {"validate", "info"}) => o.res # "accept"
Conforms(m, o) == TRUE
=============================================================================
