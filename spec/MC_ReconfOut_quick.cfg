SPECIFICATION Spec
CONSTANTS
  MaxLen = 4
INVARIANTS InvCur RunAgrees Emit
PROPERTIES Terminates
CHECK_DEADLOCK FALSE
