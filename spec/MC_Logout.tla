----------------------------- MODULE MC_Logout -----------------------------
EXTENDS Logout, Json, IOUtils
VARIABLES pc, cfg, in, verified, out
vars == <<pc, cfg, in, verified, out>>
Pending == [res |-> "pending", flag |-> FALSE, fields |-> "none", err |-> NoErr]
Init == pc = "Verify" /\ verified = FALSE /\ out = Pending /\ cfg \in Cfgs /\ in \in Inputs
\* signature step (skipped entirely in skip mode)
VerifyA == /\ pc = "Verify"
           /\ IF cfg.skip THEN pc' = "Unmarshal" /\ UNCHANGED <<verified, out>>
              ELSE LET v == Verify(in) IN
                   IF v = "error" THEN pc' = "done" /\ out' = Rej(Other("signature")) /\ UNCHANGED verified
                   ELSE pc' = "Unmarshal" /\ verified' = (v = "ok") /\ UNCHANGED out
           /\ UNCHANGED <<cfg, in>>
\* decoding into the typed struct fails for another message kind
Unmarshal == /\ pc = "Unmarshal"
             /\ IF in.kind # in.entry THEN pc' = "done" /\ out' = Rej(Other("kind")) ELSE pc' = "Fields" /\ UNCHANGED out
             /\ UNCHANGED <<cfg, in, verified>>
Fields == /\ pc = "Fields" /\ pc' = "done"
          /\ LET e == FieldCheck(cfg, in) IN
             out' = IF e.cls # "none" THEN Rej(e) ELSE [res |-> "accept", flag |-> verified, fields |-> "root", err |-> NoErr]
          /\ UNCHANGED <<cfg, in, verified>>
Next == VerifyA \/ Unmarshal \/ Fields
Spec == Init /\ [][Next]_vars /\ WF_vars(Next)
Done == pc = "done"
AsObs(o) == [res |-> o.res, flag |-> o.flag, fields |-> o.fields, err |-> [cls |-> o.err.cls, type |-> o.err.type, names |-> <<o.err.name>>]]
InvC10 == Done => C10_OK(cfg, in, AsObs(out))
InvC04 == Done => C04_OK(cfg, in, AsObs(out))
RunAgrees == Done => out = ModelOut(cfg, in)
Frozen == [][cfg' = cfg /\ in' = in]_vars
Terminates == <>Done
Emit == Done =>
   Serialize(ToJson([family |-> "Logout", cfg |-> cfg, input |-> in, model_out |-> out]) \o "\n", IOEnv.VERIF_OUT,
             [format |-> "TXT", charset |-> "UTF-8", openOptions |-> <<"WRITE", "CREATE", "APPEND">>]).exitValue = 0
=============================================================================
