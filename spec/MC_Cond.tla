------------------------------ MODULE MC_Cond ------------------------------
EXTENDS Cond, Json, IOUtils
VARIABLES pc, cfg, in, i, nia, out
vars == <<pc, cfg, in, i, nia, out>>
Pending == [res |-> "pending"]
Init == pc = "Audience" /\ i = 1 /\ nia = FALSE /\ out = Pending /\ cfg \in Cfgs /\ in \in Inputs
\* one AudienceRestriction per step; the loop stops at the first unmatched one (validate.go:101-116)
Audience == /\ pc = "Audience"
            /\ IF i > Len(in.ars) THEN pc' = "Rest" /\ UNCHANGED <<i, nia>>
               ELSE IF \E j \in DOMAIN in.ars[i] : Eq(in.ars[i][j], cfg.aud) THEN i' = i + 1 /\ UNCHANGED <<pc, nia>>
               ELSE nia' = TRUE /\ pc' = "Rest" /\ UNCHANGED i
            /\ UNCHANGED <<cfg, in, out>>
\* OneTimeUse and ProxyRestriction (validate.go:118-133)
Rest == /\ pc = "Rest" /\ pc' = "done"
        /\ out' = [res |-> "accept", time |-> in.win # "in", nia |-> nia, otu |-> in.otu,
                   proxy |-> [present |-> in.proxy.present, count |-> CountNum(in.proxy.count), aud |-> in.proxy.aud]]
        /\ UNCHANGED <<cfg, in, i, nia>>
Next == Audience \/ Rest
Spec == Init /\ [][Next]_vars /\ WF_vars(Next)
Done == pc = "done"
InvC06 == Done => C06_OK(cfg, in, out)
RunAgrees == Done => out = ModelOut(cfg, in)
Frozen == [][cfg' = cfg /\ in' = in]_vars
Terminates == <>Done
Emit == Done =>
   Serialize(ToJson([family |-> "Cond", cfg |-> cfg, input |-> in, model_out |-> out]) \o "\n", IOEnv.VERIF_OUT,
             [format |-> "TXT", charset |-> "UTF-8", openOptions |-> <<"WRITE", "CREATE", "APPEND">>]).exitValue = 0
=============================================================================
