------------------------------- MODULE Concur -------------------------------
(***************************************************************************)
(* Calls on a configured service provider share nothing (C17).             *)
(*                                                                         *)
(* Apart from the lazily created signing context -- modelled step by step  *)
(* in SigningCtx.tla -- no public operation of the library writes to state *)
(* that another call can read: every result is a function of the call's    *)
(* own arguments, the (read-only) configuration and the clock.  This       *)
(* module states that as a specification of concurrent histories and is    *)
(* bound to the real code in two ways:                                     *)
(*                                                                         *)
(*  stress  several goroutines repeat the operations in `ops`, each with   *)
(*          arguments of its own (distinct documents, relay states,        *)
(*          request IDs, inbound messages), on one shared provider or on   *)
(*          private ones; every single result is compared with what the    *)
(*          same call yields alone.  The goroutines outnumber the          *)
(*          processors and yield at the observation points inside          *)
(*          SigningContext(), so pooled or cached buffers change hands.    *)
(*  parked  call `a` is held at an observation point inside                *)
(*          SigningContext() at which it owns no lock (`gate`), on a       *)
(*          single processor; call `b` runs from start to end; `a` is      *)
(*          released.  Both results are compared with the alone results.   *)
(*          This is the schedule class "b entirely within one step of a"   *)
(*          of SigningCtx.tla, extended to every operation as b.           *)
(***************************************************************************)
EXTENDS Naturals, Sequences, FiniteSets, TLC

CONSTANTS OutOps,     \* operations that build outbound messages
          InOps,      \* operations that consume inbound messages
          ScOps,      \* the outbound operations that go through SigningContext()
          Gates,      \* observation points at which the caller holds no lock
          MaxMix      \* largest number of distinct operations mixed in one stress round (besides "all of them")

Ops == OutOps \cup InOps
Mixes == { S \in SUBSET Ops : Cardinality(S) >= 1 /\ Cardinality(S) <= MaxMix } \cup {Ops}
NoOp == "-"
Stress == [mode : {"stress"}, ops : Mixes, shared : BOOLEAN, a : {NoOp}, gate : {NoOp}, b : {NoOp}]
\* cold: all operations, from goroutines released together, as the FIRST calls into the library in a fresh process
\* (several processes in a row): whatever the library initialises lazily at package level is initialised under
\* contention
Cold == [mode : {"cold"}, ops : {Ops}, shared : BOOLEAN, a : {NoOp}, gate : {NoOp}, b : {NoOp}]
Parked == [mode : {"parked"}, ops : {{}}, shared : {TRUE}, a : ScOps, gate : Gates, b : Ops]
Inputs == Stress \cup Parked \cup Cold
Cfgs == [x : {0}]

\* which properties an operation's result belongs to besides C17
\* (twoBad: an unsigned Response with two assertions that fail for DIFFERENT reasons: which error is reported is part of
\* the outcome, and identical calls give identical outcomes)
Inflating  == {"validateDeflate", "infoDeflate", "predecodeDeflate", "logoutRespDeflate", "refusedDeflate"}
Redirects  == {"redirectAuthn", "redirectLogout"}
Posts      == {"postAuthn", "postLogoutResp"}
SignedDocs == {"authnDoc", "logoutReqDoc", "logoutRespDoc"}
Decrypting == {"validateEnc"}

Involved(in) == IF in.mode = "parked" THEN {in.a, in.b} ELSE in.ops

\* the model: every call returns its own result; a parked call reaches its gate (a fresh provider's first signing
\* call passes both the read-locked look-up and the creation path)
ModelOut(cfg, in) == [wrong |-> {}, reached |-> in.mode = "parked", config_same |-> TRUE]

\* o: [ran (operations that completed at least one call), wrong (operations with at least one result that differs
\*     from the alone result), reached (parked only: a was actually held at the gate while b ran)]
Sound(in, o, S) == (o.wrong \cap S = {})
\* config_same: the provider's configuration (every field, the clock and the stores by identity and content) is the
\* same after the round as before it -- no call writes to it, not even temporarily with a lost restore
C17_OK(cfg, in, o) == o.wrong = {} /\ Involved(in) \subseteq o.ran /\ (in.mode = "parked" => o.reached) /\ o.config_same
C02_OK(cfg, in, o) == o.config_same      \* the certificate store and the clock that validity is judged by
C05_OK(cfg, in, o) == o.config_same      \* the clock
C12_OK(cfg, in, o) == Sound(in, o, Inflating)
C14_OK(cfg, in, o) == Sound(in, o, Redirects)
C16_OK(cfg, in, o) == Sound(in, o, Posts)
C13_OK(cfg, in, o) == Sound(in, o, SignedDocs)
C11_OK(cfg, in, o) == Sound(in, o, Decrypting)
Conforms(m, o) == o.reached = m.reached /\ o.config_same = m.config_same
=============================================================================
