SPECIFICATION Spec
CONSTANTS
  MaxRestrictions = 2
  AudTokens = {"match", "case", "slash", "other", "emptyaud"}
INVARIANTS InvC06 RunAgrees Emit
PROPERTIES Frozen Terminates
CHECK_DEADLOCK FALSE
