------------------------------- MODULE MC_SpLife -------------------------------
EXTENDS SpLife, Json, IOUtils
VARIABLES h, i, log
vars == <<h, i, log>>
Init == h \in Histories /\ i = 1 /\ log = << >>
\* one public operation: configuration untouched, result determined by (configuration, operation)
Call == i <= Len(h) /\ log' = Append(log, ModelStep(h[i])) /\ i' = i + 1 /\ UNCHANGED h
Next == Call
Spec == Init /\ [][Next]_vars /\ WF_vars(Next)
Done == i = Len(h) + 1
InvPure == Done => C17_OK(h, [steps |-> [j \in 1..Len(log) |-> [op |-> log[j].op, result |-> IF log[j].op = "mut" THEN "na" ELSE log[j].result, cfg_same |-> log[j].cfg_same]]])
Terminates == <>Done
Emit == Done =>
   Serialize(ToJson([family |-> "SpLife", cfg |-> [x |-> 0], input |-> [h |-> h], model_out |-> [n |-> Len(h)]]) \o "\n", IOEnv.VERIF_OUT,
             [format |-> "TXT", charset |-> "UTF-8", openOptions |-> <<"WRITE", "CREATE", "APPEND">>]).exitValue = 0
=============================================================================
