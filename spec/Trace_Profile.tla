--------------------------- MODULE Trace_Profile ---------------------------
EXTENDS Profile, Json, IOUtils
VARIABLE l
Trace == ndJsonDeserialize(IOEnv.VERIF_TRACE)
FailSet(t) ==
   (IF C03_OK(t.cfg, t.input, t.obs) THEN {} ELSE {"C03"}) \cup
   (IF C09_OK(t.cfg, t.input, t.obs) THEN {} ELSE {"C09"}) \cup
   (IF C04_OK(t.cfg, t.input, t.obs) THEN {} ELSE {"C04"}) \cup
   (IF C01_OK(t.cfg, t.input, t.obs) THEN {} ELSE {"C01"})
Verdict(t) == [case |-> t.case, fails |-> FailSet(t), drift |-> ~(Conforms(ModelOut(t.cfg, t.input), t.obs) /\ ConformsInfo(t.cfg, t.input, t.obs))]
Init == l = 1
Next == /\ l <= Len(Trace)
        /\ Serialize(ToJson(Verdict(Trace[l])) \o "\n", IOEnv.VERIF_VERDICT,
                     [format |-> "TXT", charset |-> "UTF-8", openOptions |-> <<"WRITE", "CREATE", "APPEND">>]).exitValue = 0
        /\ l' = l + 1
Spec == Init /\ [][Next]_l
TraceAccepted == TLCGet("stats").diameter - 1 = Len(Trace)
=============================================================================
