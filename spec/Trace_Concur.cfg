SPECIFICATION Spec
CONSTANTS
  OutOps = {"authnDoc", "logoutReqDoc", "logoutRespDoc", "redirectAuthn", "redirectLogout", "postAuthn", "postLogoutResp", "metadata"}
  InOps = {"validateRaw", "validateDeflate", "validateEnc", "infoDeflate", "predecodeDeflate", "logoutRespDeflate", "logoutReq", "refusedDeflate", "twoBad"}
  ScOps = {"authnDoc", "logoutReqDoc", "logoutRespDoc", "redirectAuthn", "redirectLogout"}
  Gates = {"sc.rlock", "sc.lock"}
  MaxMix = 1
POSTCONDITION TraceAccepted
CHECK_DEADLOCK FALSE
