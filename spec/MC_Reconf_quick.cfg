SPECIFICATION Spec
CONSTANTS
  MaxLen = 3
INVARIANTS InvCur RunAgrees Emit
PROPERTIES Terminates
CHECK_DEADLOCK FALSE
