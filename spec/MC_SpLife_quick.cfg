SPECIFICATION Spec
CONSTANTS
  Ops = {"validate", "validateEnc", "validateBad", "info", "logoutReq", "logoutResp", "buildAuthn", "buildLogout", "redirect", "metadata"}
  MaxLen = 3
INVARIANTS InvPure Emit
PROPERTIES Terminates
CHECK_DEADLOCK FALSE
