SPECIFICATION Spec
CONSTANTS
  DataAlgs = {"aes128-gcm", "aes192-gcm", "aes256-gcm", "aes128-cbc", "aes256-cbc"}
  BindAlgs = {"aes128-gcm", "aes256-cbc"}
  Nows = {3, 4, 8, 12, 13, 99}
  Residues = {0, 1, 7, 15}
INVARIANTS InvC07 InvC11 InvC01 RunAgrees Emit
PROPERTIES Frozen Terminates
CHECK_DEADLOCK FALSE
