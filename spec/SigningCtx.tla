----------------------------- MODULE SigningCtx -----------------------------
(***************************************************************************)
(* The lazily created, RWMutex-guarded signing context (C17):              *)
(* saml.go SigningContext().  One label per code segment between two       *)
(* observation points of the real function, so that every behaviour of     *)
(* this algorithm is a schedule that can be forced through the real code   *)
(* and every recorded execution can be checked against it:                 *)
(*   L_rlock   sc.rlock   -> sc.rlocked : RLock()                          *)
(*   L_read    sc.rlocked -> sc.runlock : read the pointer                 *)
(*   L_runlock sc.runlock -> ...        : RUnlock(); nil check             *)
(*   L_lock    sc.lock    -> sc.locked  : Lock()                           *)
(*   L_publish sc.locked  -> (config)   : allocate, store the pointer      *)
(*   L_config  (config)   -> sc.unlock  : algorithm, canonicaliser         *)
(*   L_unlock  sc.unlock  -> return     : Unlock()                         *)
(* Note the code does not re-check the pointer after Lock(): two callers   *)
(* that both saw nil both allocate; each still returns a fully configured  *)
(* context.                                                                *)
(***************************************************************************)
EXTENDS Naturals, Sequences, FiniteSets, TLC

CONSTANTS N, K          \* goroutines, calls per goroutine

(* --algorithm SigningCtx
variables ptr = 0,                       \* 0 = nil, otherwise the id of a context
          configured = {},               \* ids of fully configured contexts
          nextId = 1,
          readers = 0, writer = FALSE,   \* sync.RWMutex
          sched = << >>;                 \* history: <<goroutine, label>>

define
  MutexOK      == (writer => readers = 0) /\ readers >= 0
end define;

process g \in 1..N
variables local = 0, calls = K, ret = << >>;
begin
L_call:
  while calls > 0 do
    L_rlock:   await ~writer;
               readers := readers + 1;
               sched := Append(sched, <<self, "L_rlock">>);
    L_read:    local := ptr;
               sched := Append(sched, <<self, "L_read">>);
    L_runlock: readers := readers - 1;
               sched := Append(sched, <<self, "L_runlock">>);
               if local # 0 then
                 ret := Append(ret, local);
                 calls := calls - 1;
                 goto L_call;
               end if;
    L_lock:    await ~writer /\ readers = 0;
               writer := TRUE;
               sched := Append(sched, <<self, "L_lock">>);
    L_publish: ptr := nextId;
               nextId := nextId + 1;
               sched := Append(sched, <<self, "L_publish">>);
    L_config:  configured := configured \cup {ptr};
               sched := Append(sched, <<self, "L_config">>);
    L_unlock:  ret := Append(ret, ptr);
               writer := FALSE;
               calls := calls - 1;
               sched := Append(sched, <<self, "L_unlock">>);
  end while;
end process;
end algorithm; *)
\* BEGIN TRANSLATION (chksum(pcal) = "b1a22414" /\ chksum(tla) = "2bdc9c13")
VARIABLES pc, ptr, configured, nextId, readers, writer, sched

(* define statement *)
MutexOK      == (writer => readers = 0) /\ readers >= 0

VARIABLES local, calls, ret

vars == << pc, ptr, configured, nextId, readers, writer, sched, local, calls, 
           ret >>

ProcSet == (1..N)

Init == (* Global variables *)
        /\ ptr = 0
        /\ configured = {}
        /\ nextId = 1
        /\ readers = 0
        /\ writer = FALSE
        /\ sched = << >>
        (* Process g *)
        /\ local = [self \in 1..N |-> 0]
        /\ calls = [self \in 1..N |-> K]
        /\ ret = [self \in 1..N |-> << >>]
        /\ pc = [self \in ProcSet |-> "L_call"]

L_call(self) == /\ pc[self] = "L_call"
                /\ IF calls[self] > 0
                      THEN /\ pc' = [pc EXCEPT ![self] = "L_rlock"]
                      ELSE /\ pc' = [pc EXCEPT ![self] = "Done"]
                /\ UNCHANGED << ptr, configured, nextId, readers, writer, 
                                sched, local, calls, ret >>

L_rlock(self) == /\ pc[self] = "L_rlock"
                 /\ ~writer
                 /\ readers' = readers + 1
                 /\ sched' = Append(sched, <<self, "L_rlock">>)
                 /\ pc' = [pc EXCEPT ![self] = "L_read"]
                 /\ UNCHANGED << ptr, configured, nextId, writer, local, calls, 
                                 ret >>

L_read(self) == /\ pc[self] = "L_read"
                /\ local' = [local EXCEPT ![self] = ptr]
                /\ sched' = Append(sched, <<self, "L_read">>)
                /\ pc' = [pc EXCEPT ![self] = "L_runlock"]
                /\ UNCHANGED << ptr, configured, nextId, readers, writer, 
                                calls, ret >>

L_runlock(self) == /\ pc[self] = "L_runlock"
                   /\ readers' = readers - 1
                   /\ sched' = Append(sched, <<self, "L_runlock">>)
                   /\ IF local[self] # 0
                         THEN /\ ret' = [ret EXCEPT ![self] = Append(ret[self], local[self])]
                              /\ calls' = [calls EXCEPT ![self] = calls[self] - 1]
                              /\ pc' = [pc EXCEPT ![self] = "L_call"]
                         ELSE /\ pc' = [pc EXCEPT ![self] = "L_lock"]
                              /\ UNCHANGED << calls, ret >>
                   /\ UNCHANGED << ptr, configured, nextId, writer, local >>

L_lock(self) == /\ pc[self] = "L_lock"
                /\ ~writer /\ readers = 0
                /\ writer' = TRUE
                /\ sched' = Append(sched, <<self, "L_lock">>)
                /\ pc' = [pc EXCEPT ![self] = "L_publish"]
                /\ UNCHANGED << ptr, configured, nextId, readers, local, calls, 
                                ret >>

L_publish(self) == /\ pc[self] = "L_publish"
                   /\ ptr' = nextId
                   /\ nextId' = nextId + 1
                   /\ sched' = Append(sched, <<self, "L_publish">>)
                   /\ pc' = [pc EXCEPT ![self] = "L_config"]
                   /\ UNCHANGED << configured, readers, writer, local, calls, 
                                   ret >>

L_config(self) == /\ pc[self] = "L_config"
                  /\ configured' = (configured \cup {ptr})
                  /\ sched' = Append(sched, <<self, "L_config">>)
                  /\ pc' = [pc EXCEPT ![self] = "L_unlock"]
                  /\ UNCHANGED << ptr, nextId, readers, writer, local, calls, 
                                  ret >>

L_unlock(self) == /\ pc[self] = "L_unlock"
                  /\ ret' = [ret EXCEPT ![self] = Append(ret[self], ptr)]
                  /\ writer' = FALSE
                  /\ calls' = [calls EXCEPT ![self] = calls[self] - 1]
                  /\ sched' = Append(sched, <<self, "L_unlock">>)
                  /\ pc' = [pc EXCEPT ![self] = "L_call"]
                  /\ UNCHANGED << ptr, configured, nextId, readers, local >>

g(self) == L_call(self) \/ L_rlock(self) \/ L_read(self) \/ L_runlock(self)
              \/ L_lock(self) \/ L_publish(self) \/ L_config(self)
              \/ L_unlock(self)

(* Allow infinite stuttering to prevent deadlock on termination. *)
Terminating == /\ \A self \in ProcSet: pc[self] = "Done"
               /\ UNCHANGED vars

Next == (\E self \in 1..N: g(self))
           \/ Terminating

Spec == Init /\ [][Next]_vars

Termination == <>(\A self \in ProcSet: pc[self] = "Done")

\* END TRANSLATION 
=============================================================================
