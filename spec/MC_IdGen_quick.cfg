SPECIFICATION Spec
CONSTANTS
  Step = 5
INVARIANTS InvBits InvLegal InvInjective
PROPERTIES Terminates
CHECK_DEADLOCK FALSE
