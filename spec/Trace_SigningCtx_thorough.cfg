SPECIFICATION TSpec
CONSTANTS
  N = 3
  K = 1
CHECK_DEADLOCK FALSE
