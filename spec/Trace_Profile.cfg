SPECIFICATION Spec
CONSTANTS
  MaxAssertions = 1
  MaxFaults = 0
POSTCONDITION TraceAccepted
CHECK_DEADLOCK FALSE
