SPECIFICATION Spec
CONSTANTS
  Ticks = {0}
  MaxAssertions = 1
POSTCONDITION TraceAccepted
CHECK_DEADLOCK FALSE
