SPECIFICATION Spec
CONSTANTS
  Subjects = {"alice", "bob"}
  MaxReq = 2
  MaxIdp = 1
  MinConsume = 1
  MaxSteps = 6
INVARIANTS Authentic NoReplay PendingSane AnswersOnlyIdP Emit
PROPERTIES LogoutOnlyByIdP
CHECK_DEADLOCK FALSE
