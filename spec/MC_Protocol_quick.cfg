SPECIFICATION Spec
CONSTANTS
  Subjects = {"alice", "bob"}
  MaxReq = 2
  MaxSteps = 6
INVARIANTS Authentic NoReplay PendingSane Emit
PROPERTIES LogoutOnlyByIdP
CHECK_DEADLOCK FALSE
