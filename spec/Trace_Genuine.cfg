SPECIFICATION Spec
CONSTANTS
  C14Ns = {"exc"}
  Digests = {"sha1"}
  SigAlgs = {"rsa-sha1"}
  MaxAssertions = 1
POSTCONDITION TraceAccepted
CHECK_DEADLOCK FALSE
