SPECIFICATION Spec
CONSTANTS
  Positions = 6
INVARIANTS Emit
PROPERTIES Terminates
CHECK_DEADLOCK FALSE
