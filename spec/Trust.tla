------------------------------- MODULE Trust -------------------------------
(***************************************************************************)
(* Which certificates vouch (C02) and what the flags then say (C04, C10).  *)
(* Time is in half-second units from T0.  Certificates:                    *)
(*   A valid [4,12], B valid [8,16] (staggered: key roll-over), U (the     *)
(*   attacker's own) valid everywhere.  A signature is [by, shows]: the    *)
(*   key that made the value and the certificate shown in KeyInfo          *)
(*   ("none" = no KeyInfo).  Mirrors goxmldsig validate.go:507-563 and     *)
(*   257-372 and the four call sites in gosaml2.                           *)
(***************************************************************************)
EXTENDS Naturals, Sequences, FiniteSets, TLC

CONSTANTS Nows, Kinds, Pads

Keys   == {"A", "B", "U"}
Shows  == {"A", "B", "U", "none"}
NB(c)  == CASE c = "A" -> 4 [] c = "B" -> 8  [] OTHER -> 0
NA(c)  == CASE c = "A" -> 12 [] c = "B" -> 16 [] OTHER -> 100

Cfgs   == [storeA : BOOLEAN, storeB : BOOLEAN, now : Nows]
\* pad: for the assertion-signed kind, that many further assertions, signed the same way and never tampered with,
\* come BEFORE the one described (every assertion of an unsigned Response is verified, however many there are)
Inputs == [kind : Kinds, signed : BOOLEAN, by : Keys, shows : Shows, tamper : BOOLEAN, pad : Pads]
InputOK(in) == /\ (~in.signed) => (in.by = "A" /\ in.shows = "A" /\ ~in.tamper)   \* one representative for "unsigned"
               /\ (in.pad > 0) => (in.kind = "ssoAssert" /\ in.signed)

InStore(cfg, c) == (c = "A" /\ cfg.storeA) \/ (c = "B" /\ cfg.storeB)
StoreSize(cfg)  == (IF cfg.storeA THEN 1 ELSE 0) + (IF cfg.storeB THEN 1 ELSE 0)
Sole(cfg)       == IF cfg.storeA THEN "A" ELSE "B"

\* verifyCertificate
EffCert(cfg, in) == IF in.shows = "none" THEN (IF StoreSize(cfg) = 1 THEN Sole(cfg) ELSE "nocert") ELSE in.shows
Verify(cfg, in) ==
   IF ~in.signed THEN "missing"
   ELSE LET c == EffCert(cfg, in) IN
        IF c = "nocert" \/ ~InStore(cfg, c) THEN "err_cert"
        ELSE IF cfg.now < NB(c) \/ cfg.now > NA(c) THEN "err_window"
        ELSE IF in.by # c THEN "err_value"
        ELSE IF in.tamper THEN "err_digest"
        ELSE "ok"

IsLogout(in) == in.kind \in {"logoutReq", "logoutResp"}

ModelOut(cfg, in) ==
   LET v == Verify(cfg, in) IN
   IF v = "ok" THEN [res |-> "accept", flag |-> TRUE, n |-> in.pad + 1]
   ELSE IF v = "missing" /\ IsLogout(in) THEN [res |-> "accept", flag |-> FALSE, n |-> 1]
   ELSE [res |-> "reject", flag |-> FALSE, n |-> 0]

---------------------------------------------------------------------------
\* property relation, stated from the property text, not from Verify
Vouched(cfg, in) ==
   /\ in.signed /\ ~in.tamper
   /\ \E c \in {"A", "B"} : /\ InStore(cfg, c)
                            /\ (in.shows = c \/ (in.shows = "none" /\ StoreSize(cfg) = 1))
                            /\ in.by = c
                            /\ NB(c) <= cfg.now /\ cfg.now <= NA(c)

C02_OK(cfg, in, o) ==
   /\ (in.signed /\ o.res = "accept") => Vouched(cfg, in)      \* never downgraded to "unsigned"
   /\ Vouched(cfg, in) => (o.res = "accept" /\ o.flag)          \* every store member is honoured equally
   /\ (~in.signed /\ ~IsLogout(in)) => o.res = "reject"         \* C01: an unsigned SSO message has no voucher
   /\ (o.res = "accept" /\ in.kind = "ssoAssert") => o.n = in.pad + 1   \* all of them are returned, each one verified

C04_OK(cfg, in, o) == (o.res = "accept" /\ o.flag) => Vouched(cfg, in)
C10_OK(cfg, in, o) == (IsLogout(in) /\ o.res = "accept") => (o.flag <=> Vouched(cfg, in))
C09_OK(cfg, in, o) == o.res \in {"accept", "reject"}

Conforms(m, o) == o.res = m.res /\ (m.res = "accept" => (o.flag = m.flag /\ o.n = m.n))
=============================================================================
