----------------------------- MODULE MC_Inflate -----------------------------
EXTENDS Inflate, Json, IOUtils
VARIABLES pc, cfg, in, out
vars == <<pc, cfg, in, out>>
Pending == [res |-> "pending", limited |-> FALSE]
Init == pc = "TryRaw" /\ out = Pending /\ cfg \in Cfgs /\ in \in Inputs /\ Feasible(cfg, in)
\* maybeDeflate first hands the octets to the decoder as they are
TryRaw == /\ pc = "TryRaw" /\ pc' = (IF in.pres = "raw" THEN "Decode" ELSE "Inflate") /\ UNCHANGED <<cfg, in, out>>
\* LimitReader(flate, limit+1); more than limit octets is an error
Inflate == /\ pc = "Inflate"
           /\ IF Over(cfg, in) THEN pc' = "done" /\ out' = [res |-> "reject", limited |-> TRUE]
              ELSE pc' = "Decode" /\ UNCHANGED out
           /\ UNCHANGED <<cfg, in>>
Decode == /\ pc = "Decode" /\ pc' = "done" /\ out' = [res |-> IF in.good THEN "accept" ELSE "reject", limited |-> FALSE]
          /\ UNCHANGED <<cfg, in>>
Next == TryRaw \/ Inflate \/ Decode
Spec == Init /\ [][Next]_vars /\ WF_vars(Next)
Done == pc = "done"
AsObs(o) == [res |-> o.res, same |-> TRUE, alloc_kib |-> 0, input_kib |-> 0]
InvC12 == Done => C12_OK(cfg, in, AsObs(out))
RunAgrees == Done => out = ModelOut(cfg, in)
Frozen == [][cfg' = cfg /\ in' = in]_vars
Terminates == <>Done
Emit == Done =>
   Serialize(ToJson([family |-> "Inflate", cfg |-> cfg, input |-> in, model_out |-> out]) \o "\n", IOEnv.VERIF_OUT,
             [format |-> "TXT", charset |-> "UTF-8", openOptions |-> <<"WRITE", "CREATE", "APPEND">>]).exitValue = 0
=============================================================================
