SPECIFICATION Spec
CONSTANTS
  Limits = {"0", "1", "2k", "64k", "maxint"}
  Sizes = {"natural", "lim-1", "lim", "lim+1", "x100", "x1000", "lim_min"}
  Entries = {"validate", "validateEncInner", "info", "predecodeResp", "predecodeLogout", "logoutReq", "logoutResp"}
INVARIANTS InvC12 RunAgrees Emit
PROPERTIES Frozen Terminates
CHECK_DEADLOCK FALSE
