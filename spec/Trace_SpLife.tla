------------------------------ MODULE Trace_SpLife ------------------------------
EXTENDS SpLife, Json, IOUtils
VARIABLE l
Trace == ndJsonDeserialize(IOEnv.VERIF_TRACE)
Verdict(t) == [case |-> t.case, fails |-> (IF C17_OK(t.input.h, t.obs) THEN {} ELSE {"C17"}) \cup (IF C19_OK(t.input.h, t.obs) THEN {} ELSE {"C19"}), drift |-> FALSE]
Init == l = 1
Next == /\ l <= Len(Trace)
        /\ Serialize(ToJson(Verdict(Trace[l])) \o "\n", IOEnv.VERIF_VERDICT,
                     [format |-> "TXT", charset |-> "UTF-8", openOptions |-> <<"WRITE", "CREATE", "APPEND">>]).exitValue = 0
        /\ l' = l + 1
Spec == Init /\ [][Next]_l
TraceAccepted == TLCGet("stats").diameter - 1 = Len(Trace)
=============================================================================
