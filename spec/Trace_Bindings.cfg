SPECIFICATION Spec
CONSTANTS
  RelayClasses = {"empty"}
POSTCONDITION TraceAccepted
CHECK_DEADLOCK FALSE
