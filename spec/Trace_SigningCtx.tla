-------------------------- MODULE Trace_SigningCtx --------------------------
(***************************************************************************)
(* Validation of recorded executions of the real SigningContext() against  *)
(* the PlusCal algorithm.  One trace line is one forced schedule: the      *)
(* events observed at the code's observation points, in order, plus what   *)
(* every call returned.  Each event must be a step of the algorithm        *)
(* (conformance); the property verdict is on what callers observed.        *)
(***************************************************************************)
EXTENDS SigningCtx, Json, IOUtils

VARIABLES l, k, bad
Trace == ndJsonDeserialize(IOEnv.VERIF_TRACE)
Ev(i) == Trace[i].obs.events

Do(self, lab) == \/ lab = "L_call"    /\ L_call(self)
                 \/ lab = "L_rlock"   /\ L_rlock(self)
                 \/ lab = "L_read"    /\ L_read(self)
                 \/ lab = "L_runlock" /\ L_runlock(self)
                 \/ lab = "L_lock"    /\ L_lock(self)
                 \/ lab = "L_publish" /\ L_publish(self)
                 \/ lab = "L_config"  /\ L_config(self)
                 \/ lab = "L_unlock"  /\ L_unlock(self)

ResetSpecVars == /\ ptr' = 0 /\ configured' = {} /\ nextId' = 1 /\ readers' = 0 /\ writer' = FALSE /\ sched' = << >>
                 /\ local' = [self \in 1..N |-> 0] /\ calls' = [self \in 1..N |-> K] /\ ret' = [self \in 1..N |-> << >>]
                 /\ pc' = [self \in ProcSet |-> "L_call"]

\* what callers observed: no call got stuck, every call returned what it returns alone
C17_OK(o) == ~o.stuck /\ o.results_ok
\* conformance: every event was a step, all calls are accounted for, returned identities agree
Conform(o) == /\ ~bad
              /\ \A self \in ProcSet : pc[self] = "Done"
              /\ \A self \in ProcSet : ret[self] = o.rets[self]
              /\ \A self \in ProcSet : \A i \in DOMAIN ret[self] : ret[self][i] \in configured

TInit == Init /\ l = 1 /\ k = 1 /\ bad = FALSE
Step == /\ l <= Len(Trace) /\ k <= Len(Ev(l)) /\ ~bad
        /\ Do(Ev(l)[k][1], Ev(l)[k][2])
        /\ k' = k + 1 /\ UNCHANGED <<l, bad>>
Mismatch == /\ l <= Len(Trace) /\ k <= Len(Ev(l)) /\ ~bad
            /\ ~ENABLED Do(Ev(l)[k][1], Ev(l)[k][2])
            /\ bad' = TRUE /\ UNCHANGED <<l, k, vars>>
EndLine == /\ l <= Len(Trace) /\ (k > Len(Ev(l)) \/ bad)
           /\ Serialize(ToJson([case |-> Trace[l].case,
                                fails |-> IF C17_OK(Trace[l].obs) THEN {} ELSE {"C17", "C13"},   \* a wrong result here is a wrongly signed message
                                drift |-> ~Conform(Trace[l].obs)]) \o "\n", IOEnv.VERIF_VERDICT,
                        [format |-> "TXT", charset |-> "UTF-8", openOptions |-> <<"WRITE", "CREATE", "APPEND">>]).exitValue = 0
           /\ ResetSpecVars /\ l' = l + 1 /\ k' = 1 /\ bad' = FALSE
TNext == Step \/ Mismatch \/ EndLine
TSpec == TInit /\ [][TNext]_<<vars, l, k, bad>>
\* every line was consumed
TraceAccepted == TLCGet("level") >= 1
Finished == l = Len(Trace) + 1
=============================================================================
