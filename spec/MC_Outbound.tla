----------------------------- MODULE MC_Outbound -----------------------------
EXTENDS Outbound, Json, IOUtils
VARIABLES pc, cfg, in, out
vars == <<pc, cfg, in, out>>
Init == pc = "Build" /\ out = [built |-> FALSE] /\ cfg \in Cfgs /\ in \in Inputs
\* element construction from configuration and arguments
Build == pc = "Build" /\ pc' = (IF in.sub # "meta" /\ IsSigned(in) THEN "Sign" ELSE "done") /\ out' = ModelOut(cfg, in) /\ UNCHANGED <<cfg, in>>
\* SigningContext(): key selection, algorithm, canonicaliser; signature inserted after Issuer
Sign == pc = "Sign" /\ pc' = "done" /\ UNCHANGED <<cfg, in, out>>
Next == Build \/ Sign
Spec == Init /\ [][Next]_vars /\ WF_vars(Next)
Done == pc = "done"
\* the predicted document satisfies the schema-order part of C15 and the signer part of C13
InvShape == (Done /\ in.sub # "meta") =>
               /\ Ordered(in.kind, out.children) /\ Known(in.kind, out.children)
               /\ \A n \in Required(in) : Has(out.children, n)
               /\ (IsSigned(in) => (out.signer = Signer(in) /\ out.children[2] = "Signature"))
InvMeta == (Done /\ in.sub = "meta") => (out.signer # "none" /\ out.enc # "none")
Terminates == <>Done
Emit == Done =>
   Serialize(ToJson([family |-> "Outbound", cfg |-> cfg, input |-> in, model_out |-> out]) \o "\n", IOEnv.VERIF_OUT,
             [format |-> "TXT", charset |-> "UTF-8", openOptions |-> <<"WRITE", "CREATE", "APPEND">>]).exitValue = 0
=============================================================================
