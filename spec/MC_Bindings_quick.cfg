SPECIFICATION Spec
CONSTANTS
  RelayClasses = {"empty", "plain", "escape", "html", "nonascii", "long", "newline", "srcdict"}
INVARIANTS RunAgrees Emit
PROPERTIES Terminates
CHECK_DEADLOCK FALSE
