SPECIFICATION Spec
CONSTANTS
  RelayClasses = {"empty", "blank", "plain", "escape", "html", "nonascii", "long", "newline", "binary", "control", "srcdict"}
INVARIANTS RunAgrees Emit
PROPERTIES Terminates
CHECK_DEADLOCK FALSE
