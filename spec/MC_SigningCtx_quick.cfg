SPECIFICATION FairSpec
CONSTANTS
  N = 2
  K = 2
INVARIANTS MutexOK NoRace SeenConfigured ReturnedConfigured CallsAccounted Emit
PROPERTIES Termination Monotone
