----------------------------- MODULE MC_Bindings -----------------------------
EXTENDS Bindings, Json, IOUtils
VARIABLES pc, cfg, in, out
vars == <<pc, cfg, in, out>>
Init == pc = "Encode" /\ out = [built |-> FALSE, relay_present |-> FALSE, sig_present |-> FALSE] /\ cfg \in Cfgs /\ in \in Inputs
\* serialise, (DEFLATE,) base64, add RelayState when non-empty
Encode == pc = "Encode" /\ pc' = (IF SignApplies(in) THEN "SignQuery" ELSE "done")
          /\ out' = [built |-> TRUE, relay_present |-> in.relay # "empty", sig_present |-> FALSE] /\ UNCHANGED <<cfg, in>>
\* SigAlg + signature over the ordered, percent-encoded query octets
SignQuery == pc = "SignQuery" /\ pc' = "done" /\ out' = [out EXCEPT !.sig_present = TRUE] /\ UNCHANGED <<cfg, in>>
Next == Encode \/ SignQuery
Spec == Init /\ [][Next]_vars /\ WF_vars(Next)
Done == pc = "done"
RunAgrees == Done => out = ModelOut(cfg, in)
Terminates == <>Done
Emit == Done =>
   Serialize(ToJson([family |-> "Bindings", cfg |-> cfg, input |-> in, model_out |-> out]) \o "\n", IOEnv.VERIF_OUT,
             [format |-> "TXT", charset |-> "UTF-8", openOptions |-> <<"WRITE", "CREATE", "APPEND">>]).exitValue = 0
=============================================================================
