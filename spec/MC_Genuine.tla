----------------------------- MODULE MC_Genuine -----------------------------
EXTENDS Genuine, Json, IOUtils
VARIABLES pc, cfg, in, out
vars == <<pc, cfg, in, out>>
Init == pc = "Verify" /\ out = [res |-> "pending", rflag |-> FALSE, n |-> 0] /\ cfg \in Cfgs /\ in \in Inputs /\ CaseOK(cfg, in)
\* signature verification at the place the IdP signed, then decryption
Verify == pc = "Verify" /\ pc' = "Decode" /\ out' = [out EXCEPT !.rflag = in.place # "assert"] /\ UNCHANGED <<cfg, in>>
Decode == pc = "Decode" /\ pc' = "done" /\ out' = [out EXCEPT !.res = "accept", !.n = in.n] /\ UNCHANGED <<cfg, in>>
Next == Verify \/ Decode
Spec == Init /\ [][Next]_vars /\ WF_vars(Next)
Done == pc = "done"
RunAgrees == Done => out = ModelOut(cfg, in)
Terminates == <>Done
Emit == Done =>
   Serialize(ToJson([family |-> "Genuine", cfg |-> cfg, input |-> in, model_out |-> out]) \o "\n", IOEnv.VERIF_OUT,
             [format |-> "TXT", charset |-> "UTF-8", openOptions |-> <<"WRITE", "CREATE", "APPEND">>]).exitValue = 0
=============================================================================
