------------------------------ MODULE MC_ReconfOut ------------------------------
EXTENDS ReconfOut, Json, IOUtils
VARIABLES h, i, st, log
vars == <<h, i, st, log>>
Init == h \in Histories /\ i = 1 /\ st = Init0 /\ log = << >>
Configure == i <= Len(h) /\ h[i][1] = "set" /\ st' = Apply(st, h[i]) /\ log' = Append(log, ModelStep(st, h[i])) /\ i' = i + 1 /\ UNCHANGED h
\* a builder reads the configuration in force
Build == i <= Len(h) /\ h[i][1] = "build" /\ log' = Append(log, ModelStep(st, h[i])) /\ i' = i + 1 /\ UNCHANGED <<h, st>>
Next == Configure \/ Build
Spec == Init /\ [][Next]_vars /\ WF_vars(Next)
Done == i = Len(h) + 1
InvCur == Done => Cur_OK(h, [steps |-> log])
RunAgrees == Done => log = ModelOut(h)
Terminates == <>Done
Emit == Done =>
   Serialize(ToJson([family |-> "ReconfOut", cfg |-> [x |-> 0], input |-> [h |-> h], model_out |-> [n |-> Len(h)]]) \o "\n", IOEnv.VERIF_OUT,
             [format |-> "TXT", charset |-> "UTF-8", openOptions |-> <<"WRITE", "CREATE", "APPEND">>]).exitValue = 0
=============================================================================
