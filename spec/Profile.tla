------------------------------ MODULE Profile ------------------------------
(***************************************************************************)
(* SSO profile checks (C03): validate.go:136-245 and                       *)
(* decode_response.go:47-66, reached through the three decode paths        *)
(* (signed Response, unsigned Response with signed assertions, skip).      *)
(* The simulated IdP signs the *faulty* content, so every fault sits       *)
(* inside a validly signed document.  A document is the all-correct one    *)
(* with at most MaxFaults deviations from the catalogue below.             *)
(***************************************************************************)
EXTENDS Naturals, Sequences, FiniteSets, TLC

CONSTANTS MaxAssertions, MaxFaults

RootOK == [version |-> "ok", dest |-> "ok", issuer |-> "ok", status |-> "ok"]
AsOK   == [issuer |-> "ok", subject |-> "ok", conf |-> "ok", method |-> "ok", data |-> "ok", recipient |-> "ok", noa |-> "ok", authn |-> "ok", advice |-> "ok", attrs |-> "ok"]
\* "near" is a near miss of the expected URL (query string, fragment, userinfo, host case, trailing slash);
\* authn = "absent" (no AuthnStatement) is a legal variation, not a fault; advice = "nested": the IdP placed an
\* individually signed evidence assertion into the assertion's Advice before signing -- ignored when the Response is
\* signed or signatures are not checked, and fatal (an assertion that is not a child of the Response) when the
\* assertions are verified one by one; attrs = "absent" (no AttributeStatement) is legal too: validation accepts it, the
\* assertion-info summary refuses it on the FIRST assertion unless the provider allows missing attributes

\* catalogue: <<where, field, value>>; where = 0 for the root, i for assertion i
RootFaults == { <<0, "version", "absent">>, <<0, "version", "wrong">>,
                <<0, "dest", "other">>, <<0, "dest", "near">>, <<0, "dest", "absent">>, <<0, "dest", "empty">>,
                <<0, "issuer", "absent">>, <<0, "issuer", "other">>,
                <<0, "status", "nostatus">>, <<0, "status", "nocode">>, <<0, "status", "fail">>,
                \* second-level status codes: a failure wrapping Success is a failure; Success qualified by a sub-code is Success
                <<0, "status", "nestfail">>, <<0, "status", "nestok">> }
AsFaults(n) == { <<i, f[1], f[2]>> : i \in 1..n,
                 f \in { <<"issuer", "absent">>, <<"issuer", "other">>, <<"subject", "absent">>, <<"conf", "absent">>,
                         <<"method", "other">>, <<"data", "absent">>, <<"recipient", "absent">>, <<"recipient", "other">>, <<"recipient", "near">>, <<"authn", "absent">>, <<"advice", "nested">>, <<"attrs", "absent">>,
                         <<"noa", "absent">>, <<"noa", "malformed">>, <<"noa", "past">> } }

Subsets(S, k) == {{}} \cup (IF k >= 1 THEN { {a} : a \in S } ELSE {})
                      \cup (IF k >= 2 THEN { {a, b} : a \in S, b \in S } ELSE {})
                      \cup (IF k >= 3 THEN { {a, b, c} : a \in S, b \in S, c \in S } ELSE {})
\* at most one deviation per (where, field)
Consistent(T) == \A a, b \in T : (a[1] = b[1] /\ a[2] = b[2]) => a = b

Apply(n, T) ==
   [root |-> [f \in DOMAIN RootOK |-> IF \E x \in T : x[1] = 0 /\ x[2] = f
                                       THEN (CHOOSE x \in T : x[1] = 0 /\ x[2] = f)[3] ELSE RootOK[f]],
    as   |-> [i \in 1..n |-> [f \in DOMAIN AsOK |-> IF \E x \in T : x[1] = i /\ x[2] = f
                                                     THEN (CHOOSE x \in T : x[1] = i /\ x[2] = f)[3] ELSE AsOK[f]]]]

Docs == UNION { { Apply(n, T) : T \in { T2 \in Subsets(RootFaults \cup AsFaults(n), MaxFaults) : Consistent(T2) } } : n \in 0..MaxAssertions }

\* sigmode: which element the IdP signed.  "none" only makes sense in skip mode.
Cfgs   == [skip : BOOLEAN, issuerCfg : BOOLEAN, allowMissing : BOOLEAN]
Inputs == [sigmode : {"root", "assert", "none"}, doc : Docs]
CaseOK(cfg, in) == (in.sigmode = "none") <=> cfg.skip

---------------------------------------------------------------------------
(* Implementation model: first failing check in code order                 *)
NoErr == [cls |-> "none", type |-> "none", name |-> "none"]
E(t, n) == [cls |-> "typed", type |-> t, name |-> n]

RootCheck(cfg, r, n) ==
   IF r.dest \in {"other", "near"} THEN E("ErrInvalidValue", "destination")
   ELSE IF r.version # "ok" THEN E("ErrInvalidValue", "samlversion")
   ELSE IF n = 0 THEN E("ErrMissingElement", "assertion")
   ELSE IF r.issuer = "absent" THEN E("ErrMissingElement", "issuer")
   ELSE IF cfg.issuerCfg /\ r.issuer = "other" THEN E("ErrInvalidValue", "issuer")
   ELSE IF r.status = "nostatus" THEN E("ErrMissingElement", "status")
   ELSE IF r.status = "nocode" THEN E("ErrMissingElement", "statuscode")
   ELSE IF r.status \in {"fail", "nestfail"} THEN E("ErrInvalidValue", "statuscode")
   ELSE NoErr

AsCheck(cfg, a) ==
   IF a.issuer = "absent" THEN E("ErrMissingElement", "issuer")
   ELSE IF cfg.issuerCfg /\ a.issuer = "other" THEN E("ErrInvalidValue", "issuer")
   ELSE IF a.subject = "absent" THEN E("ErrMissingElement", "subject")
   ELSE IF a.conf = "absent" THEN E("ErrMissingElement", "subjectconfirmation")
   ELSE IF a.method = "other" THEN E("ErrInvalidValue", "subjectconfirmation")
   ELSE IF a.data = "absent" THEN E("ErrMissingElement", "subjectconfirmationdata")
   ELSE IF a.recipient # "ok" THEN E("ErrInvalidValue", "recipient")
   ELSE IF a.noa = "absent" THEN E("ErrMissingElement", "subjectconfirmationdata")
   ELSE IF a.noa = "malformed" THEN E("ErrParsing", "notonorafter")
   ELSE IF a.noa = "past" THEN E("ErrInvalidValue", "notonorafter")
   ELSE NoErr

RECURSIVE FirstAsErr(_, _, _)
FirstAsErr(cfg, as, i) ==
   IF i > Len(as) THEN NoErr
   ELSE LET e == AsCheck(cfg, as[i]) IN IF e.cls # "none" THEN e ELSE FirstAsErr(cfg, as, i + 1)

\* the per-assertion signature walk (decode_response.go:352-393) meets the evidence assertion before any profile check
Blocked(in) == in.sigmode = "assert" /\ \E i \in DOMAIN in.doc.as : in.doc.as[i].advice = "nested"
Other == [cls |-> "other", type |-> "none", name |-> "none"]
ModelErr(cfg, in) ==
   IF Blocked(in) THEN Other ELSE
   LET e == RootCheck(cfg, in.doc.root, Len(in.doc.as)) IN
   IF e.cls # "none" THEN e ELSE FirstAsErr(cfg, in.doc.as, 1)

\* retrieve_assertion.go:49-112: the summary exists iff validation accepts and the first assertion has attributes to report
\* (or the provider does not insist); its flag mirrors the Response's, which is set iff the Response's own signature was checked
InfoRes(cfg, in) == IF ModelErr(cfg, in).cls # "none" THEN "reject"
                    ELSE IF in.doc.as[1].attrs = "absent" /\ ~cfg.allowMissing THEN "reject" ELSE "accept"
ModelOut(cfg, in) == LET e == ModelErr(cfg, in) IN [res |-> IF e.cls = "none" THEN "accept" ELSE "reject", err |-> e]

---------------------------------------------------------------------------
(* Property relation                                                       *)
\* faults present in the document that the configuration makes checkable, each
\* with the typed errors that name it
V(t, names) == [type |-> t, names |-> names]
RootViol(cfg, r, n) ==
   (IF r.dest \in {"other", "near"} THEN {V("ErrInvalidValue", {"destination"})} ELSE {}) \cup
   (IF r.version # "ok" THEN {V("ErrInvalidValue", {"samlversion", "version"})} ELSE {}) \cup
   (IF n = 0 THEN {V("ErrMissingElement", {"assertion"})} ELSE {}) \cup
   (IF r.issuer = "absent" THEN {V("ErrMissingElement", {"issuer"})} ELSE {}) \cup
   (IF cfg.issuerCfg /\ r.issuer = "other" THEN {V("ErrInvalidValue", {"issuer"})} ELSE {}) \cup
   (IF r.status = "nostatus" THEN {V("ErrMissingElement", {"status"})} ELSE {}) \cup
   (IF r.status = "nocode" THEN {V("ErrMissingElement", {"statuscode", "status"})} ELSE {}) \cup
   (IF r.status \in {"fail", "nestfail"} THEN {V("ErrInvalidValue", {"statuscode", "status"})} ELSE {})
\* faults below an absent ancestor do not exist in the document
AsViol(cfg, a) ==
   (IF a.issuer = "absent" THEN {V("ErrMissingElement", {"issuer"})} ELSE {}) \cup
   (IF cfg.issuerCfg /\ a.issuer = "other" THEN {V("ErrInvalidValue", {"issuer"})} ELSE {}) \cup
   (IF a.subject = "absent" THEN {V("ErrMissingElement", {"subject"})}
    ELSE IF a.conf = "absent" THEN {V("ErrMissingElement", {"subjectconfirmation"})}
    ELSE (IF a.method = "other" THEN {V("ErrInvalidValue", {"subjectconfirmation", "method"})} ELSE {}) \cup
         (IF a.data = "absent" THEN {V("ErrMissingElement", {"subjectconfirmationdata"})}
          ELSE (IF a.recipient \in {"other", "near"} THEN {V("ErrInvalidValue", {"recipient"})} ELSE {}) \cup
               (IF a.recipient = "absent" THEN {V("ErrInvalidValue", {"recipient"}), V("ErrMissingElement", {"recipient", "subjectconfirmationdata"})} ELSE {}) \cup
               (IF a.noa = "absent" THEN {V("ErrMissingElement", {"notonorafter", "subjectconfirmationdata"})} ELSE {}) \cup
               (IF a.noa = "malformed" THEN {V("ErrParsing", {"notonorafter"})} ELSE {}) \cup
               (IF a.noa = "past" THEN {V("ErrInvalidValue", {"notonorafter"})} ELSE {})))

Viol(cfg, in) == RootViol(cfg, in.doc.root, Len(in.doc.as)) \cup UNION { AsViol(cfg, in.doc.as[i]) : i \in DOMAIN in.doc.as }

Names(e) == { e.names[i] : i \in DOMAIN e.names }
Matches(e, v) == e.cls = "typed" /\ e.type = v.type /\ Names(e) \cap v.names # {}

\* o.err / o.info.err: [cls, type, names (sequence of lower-cased alphanumeric tokens)]
C03_OK(cfg, in, o) ==
   LET F == Viol(cfg, in) IN
   /\ (o.res = "accept") => F = {}
   /\ (F # {}) => /\ o.res = "reject" /\ o.info.res = "reject"
                  \* (a document refused at the signature stage cannot name a profile fault)
                  /\ ~Blocked(in) => \E v \in F : Matches(o.err, v)
                  /\ ~Blocked(in) => \E v \in F : Matches(o.info.err, v)      \* unwrapped from the verification error
   /\ (o.info.res = "accept") => o.res = "accept"

C09_OK(cfg, in, o) == o.res \in {"accept", "reject"} /\ o.info.res \in {"accept", "reject"}
\* C01 (fragment): what the summary hands out is the first assertion's, never a blend with a later one
C01_OK(cfg, in, o) == (o.info.res = "accept") => o.vals_first
\* C04: flags never overstate, and the summary's flag mirrors the Response's
C04_OK(cfg, in, o) ==
   /\ (o.res = "accept" /\ o.rflag) => (in.sigmode = "root" /\ ~cfg.skip)
   /\ (o.res = "accept" /\ in.sigmode = "root" /\ ~cfg.skip) => o.rflag
   /\ (o.info.res = "accept") => (o.iflag = o.rflag)

ObsErrIs(e, m) == IF m.cls = "none" THEN e.cls = "none"
                  ELSE IF m.cls = "other" THEN e.cls = "other"
                  ELSE (e.cls = "typed" /\ e.type = m.type /\ m.name \in Names(e))
Conforms(m, o) == o.res = m.res /\ ObsErrIs(o.err, m.err)
ConformsInfo(cfg, in, o) == o.info.res = InfoRes(cfg, in)
=============================================================================
