----------------------------- MODULE Trace_IdGen -----------------------------
EXTENDS IdGen, Json, IOUtils
VARIABLE l
Trace == ndJsonDeserialize(IOEnv.VERIF_TRACE)
FailSet(t) == IF C18_OK(t.obs) THEN {} ELSE {"C18"}
Verdict(t) == [case |-> t.case, fails |-> FailSet(t), drift |-> FALSE]
Init == l = 1
Next == /\ l <= Len(Trace)
        /\ Serialize(ToJson(Verdict(Trace[l])) \o "\n", IOEnv.VERIF_VERDICT,
                     [format |-> "TXT", charset |-> "UTF-8", openOptions |-> <<"WRITE", "CREATE", "APPEND">>]).exitValue = 0
        /\ l' = l + 1
Spec == Init /\ [][Next]_l
TraceAccepted == TLCGet("stats").diameter - 1 = Len(Trace)
=============================================================================
