SPECIFICATION Spec
CONSTANTS
  DataAlgs = {"aes128-gcm"}
  BindAlgs = {"aes128-gcm"}
  Nows = {8}
  Residues = {0}
POSTCONDITION TraceAccepted
CHECK_DEADLOCK FALSE
