----------------------------- MODULE MC_Garbage -----------------------------
EXTENDS Garbage, Json, IOUtils
VARIABLES pc, cfg, in
vars == <<pc, cfg, in>>
Init == pc = "call" /\ cfg \in Cfgs /\ in \in Inputs
\* the model's only obligation: every call returns
Return == pc = "call" /\ pc' = "done" /\ UNCHANGED <<cfg, in>>
Next == Return
Spec == Init /\ [][Next]_vars /\ WF_vars(Next)
Done == pc = "done"
Terminates == <>Done
Emit == Done =>
   Serialize(ToJson([family |-> "Garbage", cfg |-> cfg, input |-> in, model_out |-> ModelOut(cfg, in)]) \o "\n", IOEnv.VERIF_OUT,
             [format |-> "TXT", charset |-> "UTF-8", openOptions |-> <<"WRITE", "CREATE", "APPEND">>]).exitValue = 0
=============================================================================
