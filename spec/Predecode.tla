------------------------------ MODULE Predecode ------------------------------
(***************************************************************************)
(* The unverified pre-decoders against full validation (C20) on documents  *)
(* whose root carries shadowed attributes or Issuer elements:              *)
(* DecodeUnverifiedBaseResponse / DecodeUnverifiedLogoutResponse           *)
(* (decode_response.go:403-423, 481-499) versus the validated result.      *)
(*                                                                         *)
(* Both decoders take, for an attribute looked up by local name, the LAST  *)
(* attribute with that local name, and for a pointer-valued child the LAST *)
(* matching child.  The pre-decoder sees the attributes in the presented   *)
(* order.  Validation of an UNSIGNED root decodes the presented element,   *)
(* so the two agree whatever the attacker does.  Validation of a SIGNED    *)
(* root decodes the canonical form, in which namespace-qualified           *)
(* attributes sort after unqualified ones: a qualified shadow placed FIRST *)
(* wins in the validated result and loses in the pre-decode.  Only the IdP *)
(* can produce such a signed root; it is outside the layouts of C08 and is *)
(* kept here to show that the model explains the one disagreement that     *)
(* exists.                                                                 *)
(***************************************************************************)
EXTENDS Naturals, Sequences, FiniteSets, TLC

Fields   == {"ID", "InResponseTo", "Destination", "Version"}
Variants == { [v |-> "none", field |-> "ID", pos |-> "first"] } \cup
            [v : {"qualified", "casevariant"}, field : Fields, pos : {"first", "last"}] \cup
            [v : {"dupIssuer", "nestedIssuer", "foreignIssuer"}, field : {"Issuer"}, pos : {"first", "last"}] \cup
            \* paddedIssuer: the root's own Issuer is pretty-printed (the entity ID surrounded by white space).  Element text is
            \* reported as written by every entry point: nobody trims it, so the padded value is what both sides see, and it
            \* is not the configured issuer
            { [v |-> "paddedIssuer", field |-> "Issuer", pos |-> "first"] }
\* before: what the library was handed immediately before, on the same goroutine (a complete other document in a
\* DEFLATE stream that is never terminated / that continues with a reserved block type, garbage, another acceptable
\* message, an over-limit stream).  Nothing below depends on it: the library keeps no state between calls.
Befores == {"none", "unterminated", "badblock", "garbage", "otherok", "bomb"}
\* rawview: the message is presented in a valid DEFLATE stream whose own octets, read as XML, begin with a complete
\* root element of the same kind carrying other ID / InResponseTo / Destination / Version (a stored block with
\* printable header octets).  Whether an input is taken raw or inflated is ONE decision, the same for the pre-decoders
\* and for validation: such a stream is not a well-formed document, so both inflate it.
\* transport: the outer base64 is standard, lacks its padding, uses the URL-safe alphabet, or is broken into lines.  The
\* decoders all use the standard alphabet with padding and ignore CR / LF: the first two variants are not messages at all,
\* for any entry point (a validator that is more lenient than the pre-decoder would accept what cannot be pre-decoded)
Transports == {"std", "nopad", "urlsafe", "lines"}
Inputs == { x \in [kind : {"sso", "logout"}, rootsig : {"unsigned", "signed"}, var : Variants, deflate : BOOLEAN, before : Befores, rawview : BOOLEAN,
                   transport : Transports] :
              /\ x.rawview => (x.deflate /\ x.before = "none")
              /\ (x.transport # "std") => (x.before = "none" /\ ~x.rawview /\ x.var.v \in {"none", "dupIssuer"}) }
Cfgs   == [issuerCfg : BOOLEAN]

\* which value the validated decode ends up with for the shadowed field
ValidatedTakesShadow(in) ==
   CASE in.var.v = "qualified" -> (in.rootsig = "signed" \/ in.var.pos = "last")
     [] in.var.v = "dupIssuer" -> in.var.pos = "last"
     [] in.var.v = "paddedIssuer" -> TRUE
     [] OTHER -> FALSE                       \* case variants, nested and foreign-namespace elements never match
PredecodeTakesShadow(in) ==
   CASE in.var.v = "qualified" -> in.var.pos = "last"
     [] in.var.v = "dupIssuer" -> in.var.pos = "last"
     [] in.var.v = "paddedIssuer" -> TRUE
     [] OTHER -> FALSE
\* a shadow value that wins makes the profile checks fail for these fields
ShadowFatal(cfg, in) == \/ in.var.field \in {"Destination", "Version"}
                        \/ (in.var.field = "Issuer" /\ cfg.issuerCfg)
\* an element named Issuer in another namespace makes the typed decode fail when it comes last... (encoding/xml
\* matches children by local name and then insists on the namespace)
DecodeFails(in) == in.var.v = "foreignIssuer"

ModelOut(cfg, in) ==
   LET rej == DecodeFails(in) \/ (ValidatedTakesShadow(in) /\ ShadowFatal(cfg, in)) \/ in.transport \in {"nopad", "urlsafe"} IN
   [res |-> IF rej THEN "reject" ELSE "accept",
    agree |-> ValidatedTakesShadow(in) = PredecodeTakesShadow(in)]

\* IdP-signed roots with a namespace-qualified shadow are outside C20's quantifier
\* (with the qualified shadow LAST the two agree even then: both take it)
InScope(in) == ~(in.rootsig = "signed" /\ in.var.v = "qualified" /\ in.var.pos = "first")
\* o: [res, pre : [ok, agree]]
C20_OK(cfg, in, o) == (o.res = "accept" /\ InScope(in)) => (o.pre.ok /\ o.pre.agree)
C09_OK(cfg, in, o) == o.res \in {"accept", "reject"}
Conforms(m, o) == o.res = m.res /\ (o.res = "accept" => o.pre.agree = m.agree)
=============================================================================
