SPECIFICATION Spec
CONSTANTS
  StrClasses = {"srclit", "blank", "plain", "markup", "ws", "tricky"}
  HoursSet = {"-5", "0", "1", "24"}
INVARIANTS InvShape InvMeta Emit
PROPERTIES Terminates
CHECK_DEADLOCK FALSE
