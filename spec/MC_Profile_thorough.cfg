SPECIFICATION Spec
CONSTANTS
  MaxAssertions = 3
  MaxFaults = 2
INVARIANTS InvC03 RunAgrees AllExamined Emit
PROPERTIES Frozen Terminates
CHECK_DEADLOCK FALSE
