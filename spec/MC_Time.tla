------------------------------ MODULE MC_Time ------------------------------
EXTENDS Time, Json, IOUtils
VARIABLES pc, cfg, in, i, out
vars == <<pc, cfg, in, i, out>>
Pending == [res |-> "pending", err |-> NoErr, info |-> [res |-> "pending", warn |-> FALSE]]
Init == pc = "Expiry" /\ i = 1 /\ out = Pending /\ cfg \in Cfgs /\ in \in Inputs
\* one iteration of the subject-confirmation expiry check (validate.go:223-240)
Expiry == /\ pc = "Expiry"
          /\ IF i > Len(in.scs) THEN pc' = "Conditions" /\ out' = [out EXCEPT !.res = "accept"] /\ UNCHANGED i
             ELSE LET e == ScCheck(cfg.now, in.scs[i]) IN
                  IF e.cls # "none" THEN pc' = "done" /\ out' = [res |-> "reject", err |-> e, info |-> [res |-> "reject", warn |-> FALSE]] /\ UNCHANGED i
                  ELSE i' = i + 1 /\ UNCHANGED <<pc, out>>
          /\ UNCHANGED <<cfg, in>>
\* VerifyAssertionConditions on the first assertion (validate.go:63-99)
Conditions == /\ pc = "Conditions" /\ pc' = "done"
              /\ out' = IF CondCheck(in).cls # "none" THEN [out EXCEPT !.info = [res |-> "reject", warn |-> FALSE]]
                        ELSE [out EXCEPT !.info = [res |-> "accept", warn |-> Warn(cfg.now, in)]]
              /\ UNCHANGED <<cfg, in, i>>
Next == Expiry \/ Conditions
Spec == Init /\ [][Next]_vars /\ WF_vars(Next)
Done == pc = "done"
AsObs(o) == [res |-> o.res, expired |-> (o.res = "reject" /\ o.err.type = "ErrInvalidValue"), info |-> o.info]
InvC05 == Done => C05_OK(cfg, in, AsObs(out))
RunAgrees == Done => out = ModelOut(cfg, in)
Frozen == [][cfg' = cfg /\ in' = in]_vars
Terminates == <>Done
Emit == Done =>
   Serialize(ToJson([family |-> "Time", cfg |-> cfg, input |-> in, model_out |-> out]) \o "\n", IOEnv.VERIF_OUT,
             [format |-> "TXT", charset |-> "UTF-8", openOptions |-> <<"WRITE", "CREATE", "APPEND">>]).exitValue = 0
=============================================================================
