----------------------------- MODULE MC_Xmlenc -----------------------------
EXTENDS Xmlenc, Json, IOUtils
VARIABLES pc, cfg, in, out
vars == <<pc, cfg, in, out>>
Pending == [res |-> "pending", dec |-> "na", twin |-> TRUE]
Init == pc = "GetCert" /\ out = Pending /\ cfg \in Cfgs /\ in \in Inputs /\ CaseOK(cfg, in)
Refuse == pc' = "done" /\ out' = [res |-> IF in.sub = "len" THEN "na" ELSE "reject", dec |-> IF in.sub = "shape" THEN "error" ELSE "na", twin |-> TRUE]
\* getDecryptCert: certificate presence / validity-window check when the option is on
GetCert == /\ pc = "GetCert"
           /\ IF in.sub = "bind" /\ CertRefused(cfg, in) THEN Refuse ELSE pc' = "UnwrapKey" /\ UNCHANGED out
           /\ UNCHANGED <<cfg, in>>
\* DecryptSymmetricKey: recipient comparison, key transport, digest
UnwrapKey == /\ pc = "UnwrapKey"
             /\ IF (in.sub = "bind" /\ RecipientRefused(in)) \/ (in.sub = "shape" /\ (in.kt \notin {"oaep", "oaep11", "pkcs1"} \/ in.shape \in {"key_short", "key_garbage", "key_missing", "cipher_badb64"}))
                THEN Refuse ELSE pc' = "DecryptData" /\ UNCHANGED out
             /\ UNCHANGED <<cfg, in>>
\* DecryptBytes: data algorithm, nonce / IV split, padding
DecryptData == /\ pc = "DecryptData"
               /\ IF in.sub = "shape" /\ ~(in.shape \in Honest /\ in.alg \in Advertised) THEN Refuse ELSE pc' = "Downstream" /\ UNCHANGED out
               /\ UNCHANGED <<cfg, in>>
\* what happens to the plaintext: C01 applies as for any assertion
Downstream == /\ pc = "Downstream" /\ pc' = "done" /\ out' = ModelOut(cfg, in) /\ UNCHANGED <<cfg, in>>
Next == GetCert \/ UnwrapKey \/ DecryptData \/ Downstream
Spec == Init /\ [][Next]_vars /\ WF_vars(Next)
Done == pc = "done"
InvC07 == Done => C07_OK(cfg, in, out)
InvC11 == Done => C11_OK(cfg, in, out)
InvC01 == Done => C01_OK(cfg, in, out)
RunAgrees == Done => out = ModelOut(cfg, in)
Frozen == [][cfg' = cfg /\ in' = in]_vars
Terminates == <>Done
Emit == Done =>
   Serialize(ToJson([family |-> "Xmlenc", cfg |-> cfg, input |-> in, model_out |-> out]) \o "\n", IOEnv.VERIF_OUT,
             [format |-> "TXT", charset |-> "UTF-8", openOptions |-> <<"WRITE", "CREATE", "APPEND">>]).exitValue = 0
=============================================================================
