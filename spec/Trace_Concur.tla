----------------------------- MODULE Trace_Concur -----------------------------
EXTENDS Concur, Json, IOUtils, SequencesExt
VARIABLE l
Trace == ndJsonDeserialize(IOEnv.VERIF_TRACE)
\* JSON arrays arrive as sequences: back to sets
In(t)  == [t.input EXCEPT !.ops = ToSet(@)]
Obs(t) == [ran |-> ToSet(t.obs.ran), wrong |-> ToSet(t.obs.wrong), reached |-> t.obs.reached, config_same |-> t.obs.config_same]
FailSet(t) ==
   (IF C17_OK(t.cfg, In(t), Obs(t)) THEN {} ELSE {"C17"}) \cup
   (IF C12_OK(t.cfg, In(t), Obs(t)) THEN {} ELSE {"C12"}) \cup
   (IF C14_OK(t.cfg, In(t), Obs(t)) THEN {} ELSE {"C14"}) \cup
   (IF C16_OK(t.cfg, In(t), Obs(t)) THEN {} ELSE {"C16"}) \cup
   (IF C13_OK(t.cfg, In(t), Obs(t)) THEN {} ELSE {"C13"}) \cup
   (IF C11_OK(t.cfg, In(t), Obs(t)) THEN {} ELSE {"C11"}) \cup
   (IF C02_OK(t.cfg, In(t), Obs(t)) THEN {} ELSE {"C02"}) \cup
   (IF C05_OK(t.cfg, In(t), Obs(t)) THEN {} ELSE {"C05"})
Verdict(t) == [case |-> t.case, fails |-> FailSet(t), drift |-> ~Conforms(ModelOut(t.cfg, In(t)), Obs(t))]
Init == l = 1
Next == /\ l <= Len(Trace)
        /\ Serialize(ToJson(Verdict(Trace[l])) \o "\n", IOEnv.VERIF_VERDICT,
                     [format |-> "TXT", charset |-> "UTF-8", openOptions |-> <<"WRITE", "CREATE", "APPEND">>]).exitValue = 0
        /\ l' = l + 1
Spec == Init /\ [][Next]_l
TraceAccepted == TLCGet("stats").diameter - 1 = Len(Trace)
=============================================================================
