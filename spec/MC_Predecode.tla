----------------------------- MODULE MC_Predecode -----------------------------
EXTENDS Predecode, Json, IOUtils
VARIABLES pc, cfg, in, out
vars == <<pc, cfg, in, out>>
Init == pc = "Predecode" /\ out = [res |-> "pending", agree |-> TRUE] /\ cfg \in Cfgs /\ in \in Inputs
\* the pre-decoder reads the presented octets
PredecodeA == pc = "Predecode" /\ pc' = "Validate" /\ UNCHANGED <<cfg, in, out>>
\* validation decodes the presented element (unsigned root) or the canonical one (signed root)
ValidateA == pc = "Validate" /\ pc' = "done" /\ out' = ModelOut(cfg, in) /\ UNCHANGED <<cfg, in>>
Next == PredecodeA \/ ValidateA
Spec == Init /\ [][Next]_vars /\ WF_vars(Next)
Done == pc = "done"
\* the model itself satisfies the property inside its quantifier: no attacker-obtainable document disagrees
InvC20 == Done => C20_OK(cfg, in, [res |-> out.res, pre |-> [ok |-> TRUE, agree |-> out.agree]])
\* and the only disagreement there is needs a signed root
OnlySigned == (Done /\ out.res = "accept" /\ ~out.agree) => in.rootsig = "signed"
Terminates == <>Done
Emit == Done =>
   Serialize(ToJson([family |-> "Predecode", cfg |-> cfg, input |-> in, model_out |-> out]) \o "\n", IOEnv.VERIF_OUT,
             [format |-> "TXT", charset |-> "UTF-8", openOptions |-> <<"WRITE", "CREATE", "APPEND">>]).exitValue = 0
=============================================================================
