------------------------------- MODULE MC_IdGen -------------------------------
(* Exhaustive check of the bit forcing and formatting over all values of the  *)
(* two affected octets (the other fourteen are copied through unchanged).     *)
EXTENDS IdGen, Json, IOUtils
CONSTANT Step
VARIABLES pc, d
vars == <<pc, d>>
Vals == { x \in 0..255 : x % Step = 0 } \cup {15, 63, 64, 79, 127, 128, 191, 255}
Others == [i \in 1..16 |-> (i * 37) % 256]
Init == pc = "draw" /\ d \in { [Others EXCEPT ![7] = a, ![9] = b] : a \in Vals, b \in Vals }
Format == pc = "draw" /\ pc' = "done" /\ UNCHANGED d
Next == Format
Spec == Init /\ [][Next]_vars /\ WF_vars(Next)
Done == pc = "done"
InvBits == FreeBitsKept(d) /\ Version4(Force(d)) /\ Variant10(Force(d))
InvLegal == LegalId(IdOf(d))
\* distinct draws that differ in a free bit give distinct identifiers (injectivity on the free bits)
InvInjective == \A a \in {0, 15, 16, 240, 255} : LET d2 == [d EXCEPT ![7] = a] IN
                   ((d2[7] & 15) # (d[7] & 15)) => IdOf(d2) # IdOf(d)
Terminates == <>Done
=============================================================================
