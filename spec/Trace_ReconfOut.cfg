SPECIFICATION Spec
CONSTANTS
  MaxLen = 1
POSTCONDITION TraceAccepted
CHECK_DEADLOCK FALSE
