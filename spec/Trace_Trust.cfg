SPECIFICATION Spec
CONSTANTS
  Nows = {0}
  Pads = {0}
  Kinds = {"ssoRoot"}
POSTCONDITION TraceAccepted
CHECK_DEADLOCK FALSE
