SPECIFICATION TSpec
CONSTANTS
  N = 2
  K = 2
CHECK_DEADLOCK FALSE
