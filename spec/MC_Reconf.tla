------------------------------- MODULE MC_Reconf -------------------------------
EXTENDS Reconf, Json, IOUtils
VARIABLES h, i, st, log
vars == <<h, i, st, log>>
Init == h \in Histories /\ i = 1 /\ st = Init0 /\ log = << >>
\* a configuration assignment takes effect at once
Configure == i <= Len(h) /\ h[i][1] # "val" /\ st' = Apply(st, h[i]) /\ log' = Append(log, "na") /\ i' = i + 1 /\ UNCHANGED h
\* a validation reads the configuration in force
Validate == i <= Len(h) /\ h[i][1] = "val" /\ log' = Append(log, Expected(st, h[i])) /\ i' = i + 1 /\ UNCHANGED <<h, st>>
Next == Configure \/ Validate
Spec == Init /\ [][Next]_vars /\ WF_vars(Next)
Done == i = Len(h) + 1
InvCur == Done => Cur_OK(h, [steps |-> log])
RunAgrees == Done => log = ModelOut(h)
Terminates == <>Done
Emit == Done =>
   Serialize(ToJson([family |-> "Reconf", cfg |-> [x |-> 0], input |-> [h |-> h], model_out |-> [steps |-> log]]) \o "\n", IOEnv.VERIF_OUT,
             [format |-> "TXT", charset |-> "UTF-8", openOptions |-> <<"WRITE", "CREATE", "APPEND">>]).exitValue = 0
=============================================================================
