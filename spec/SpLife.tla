-------------------------------- MODULE SpLife --------------------------------
(***************************************************************************)
(* The service provider as a long-lived object (C17, sequential part):     *)
(* after configuration, any history of public operations leaves the        *)
(* configuration untouched, every operation returns what it returns on a   *)
(* fresh, identically configured provider (no hidden state), and mutating  *)
(* a returned result has no effect on later results.                       *)
(* "mut" mutates, as deeply as it can, the value returned by the previous  *)
(* operation.                                                              *)
(***************************************************************************)
EXTENDS Naturals, Sequences, FiniteSets, TLC

CONSTANTS Ops, MaxLen

Seqs(S, n) == UNION { [1..k -> S] : k \in 1..n }
Histories == { h \in Seqs(Ops \cup {"mut"}, MaxLen) : h[1] # "mut" /\ \A i \in 1..(Len(h) - 1) : ~(h[i] = "mut" /\ h[i + 1] = "mut") }

\* model: the configuration is constant and the result of an operation is a function of (configuration, operation) only
ModelStep(op) == [op |-> op, result |-> "same", cfg_same |-> TRUE]
ModelOut(h) == [i \in 1..Len(h) |-> ModelStep(h[i])]

\* o.steps: sequence of [op, result ("same" as on a fresh provider | "diff" | "na" for mut), cfg_same]
C17_OK(h, o) == /\ Len(o.steps) = Len(h)
                /\ \A i \in DOMAIN o.steps : o.steps[i].cfg_same /\ o.steps[i].result \in {"same", "na"}
\* C19: the published metadata is a function of the configuration only -- whatever was done before, including edits a
\* caller made in place to an earlier metadata document
C19_OK(h, o) == /\ Len(o.steps) = Len(h)
                /\ \A i \in DOMAIN o.steps : o.steps[i].op = "metadata" => (o.steps[i].cfg_same /\ o.steps[i].result = "same")
Conforms(h, o) == TRUE
=============================================================================
