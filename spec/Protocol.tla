------------------------------- MODULE Protocol -------------------------------
(***************************************************************************)
(* SP-initiated single sign-on and single logout, end to end: the service  *)
(* provider (the real library plus the caller's bookkeeping that the       *)
(* library leaves to it), the identity provider, and a network attacker    *)
(* who sees every message, can replay any of them and can send messages    *)
(* signed with its own key.  Growth beyond the listed properties: it ties  *)
(* the outbound builders (C13-C15) to the inbound validators (C01, C08,    *)
(* C10) across several calls: request ID <-> InResponseTo, validated       *)
(* NameID / SessionIndex <-> LogoutRequest, LogoutRequest ID <->           *)
(* LogoutResponse.                                                         *)
(*                                                                         *)
(* A message is a record; `by` is the key that signed it ("idp", "sp",     *)
(* "att").  The network is a set: everything ever sent can be delivered    *)
(* any number of times (replay).                                           *)
(***************************************************************************)
EXTENDS Naturals, Sequences, FiniteSets, TLC

CONSTANTS Subjects, MaxReq, MaxSteps, MaxIdp

ReqIds == 1..MaxReq

VARIABLES
  nreq,       \* requests issued so far (identifiers are 1..nreq; the real ones are fresh UUIDs)
  pending,    \* AuthnRequest ids the caller still waits for
  sessions,   \* set of [subj, via]: sessions the caller established, with the request id that led to each
  lpending,   \* LogoutRequest ids the caller waits for, each with the subject being logged out
  net,        \* messages sent so far
  nidp,       \* LogoutRequests the IdP (or the attacker posing as it) has originated so far
  hist        \* the behaviour so far (for replay against the real code)
vars == <<nreq, pending, sessions, lpending, net, nidp, hist>>

AuthnReq(i)          == [t |-> "AuthnRequest", id |-> i, by |-> "sp", irt |-> 0, subj |-> "-"]
Resp(irt, s, by)     == [t |-> "Response", id |-> 0, by |-> by, irt |-> irt, subj |-> s]
LogoutReq(i, s)      == [t |-> "LogoutRequest", id |-> i, by |-> "sp", irt |-> 0, subj |-> s]
LogoutResp(irt, by)  == [t |-> "LogoutResponse", id |-> 0, by |-> by, irt |-> irt, subj |-> "-"]
\* IdP-initiated single logout: the IdP asks the SP to end a subject's sessions; the SP answers.  by = "none" is an
\* unsigned request (which the library decodes and returns with SignatureValidated = false: the caller must look)
IdpLogoutReq(i, s, by) == [t |-> "IdPLogoutRequest", id |-> i, by |-> by, irt |-> 0, subj |-> s]
SpLogoutResp(irt)      == [t |-> "SPLogoutResponse", id |-> 0, by |-> "sp", irt |-> irt, subj |-> "-"]

Init == nreq = 0 /\ pending = {} /\ sessions = {} /\ lpending = {} /\ net = {} /\ nidp = 0 /\ hist = << >>
Log(e) == hist' = Append(hist, e)

\* the SP builds and sends an AuthnRequest (BuildAuthRequestDocument); the caller remembers its ID
SPStart == /\ nreq < MaxReq
           /\ nreq' = nreq + 1 /\ pending' = pending \cup {nreq + 1}
           /\ net' = net \cup {AuthnReq(nreq + 1)}
           /\ Log(<<"SPStart", nreq + 1, "-">>) /\ UNCHANGED <<sessions, lpending, nidp>>

\* the IdP answers a request it received with a signed Response for whoever authenticated
IdPRespond(m, s) == /\ m \in net /\ m.t = "AuthnRequest" /\ m.by = "sp"
                    /\ net' = net \cup {Resp(m.id, s, "idp")}
                    /\ Log(<<"IdPRespond", m.id, s>>) /\ UNCHANGED <<nreq, pending, sessions, lpending, nidp>>

\* the attacker sends a Response signed with its own key, answering any request id it has seen
AttForge(i, s) == /\ i \in 1..nreq
                  /\ net' = net \cup {Resp(i, s, "att")}
                  /\ Log(<<"AttForge", i, s>>) /\ UNCHANGED <<nreq, pending, sessions, lpending, nidp>>

\* the SP consumes a Response: the library validates it (C01: only IdP-signed content is accepted) and
\* the caller accepts it only for a request it is still waiting for (then no longer waits for it)
Accepted(m) == m.by = "idp"
SPConsume(m) == /\ m \in net /\ m.t = "Response"
                /\ IF Accepted(m) /\ m.irt \in pending
                   THEN sessions' = sessions \cup {[subj |-> m.subj, via |-> m.irt]} /\ pending' = pending \ {m.irt}
                   ELSE UNCHANGED <<sessions, pending>>
                /\ Log(<<"SPConsume", m.irt, m.subj, m.by>>) /\ UNCHANGED <<nreq, lpending, net, nidp>>

\* the SP starts logging a session out (BuildLogoutRequestDocument with the validated NameID / SessionIndex)
SPLogout(s) == /\ s \in sessions /\ nreq < MaxReq
               /\ nreq' = nreq + 1 /\ lpending' = lpending \cup {[id |-> nreq + 1, subj |-> s.subj]}
               /\ net' = net \cup {LogoutReq(nreq + 1, s.subj)}
               /\ Log(<<"SPLogout", nreq + 1, s.subj>>) /\ UNCHANGED <<pending, sessions, nidp>>

IdPLogoutRespond(m) == /\ m \in net /\ m.t = "LogoutRequest" /\ m.by = "sp"
                       /\ net' = net \cup {LogoutResp(m.id, "idp")}
                       /\ Log(<<"IdPLogoutRespond", m.id, m.subj>>) /\ UNCHANGED <<nreq, pending, sessions, lpending, nidp>>

AttForgeLogout(i) == /\ i \in 1..nreq
                     /\ net' = net \cup {LogoutResp(i, "att")}
                     /\ Log(<<"AttForgeLogout", i, "-">>) /\ UNCHANGED <<nreq, pending, sessions, lpending, nidp>>

\* the SP consumes a LogoutResponse: only a validated (IdP-signed) answer to a pending LogoutRequest ends sessions
SPConsumeLogout(m) == /\ m \in net /\ m.t = "LogoutResponse"
                      /\ IF m.by = "idp" /\ \E p \in lpending : p.id = m.irt
                         THEN LET p == CHOOSE q \in lpending : q.id = m.irt IN
                              /\ sessions' = { s \in sessions : s.subj # p.subj }
                              /\ lpending' = lpending \ {p}
                         ELSE UNCHANGED <<sessions, lpending, nidp>>
                      /\ Log(<<"SPConsumeLogout", m.irt, m.by>>) /\ UNCHANGED <<nreq, pending, net, nidp>>

\* the IdP asks the SP to log a subject out (whether or not the SP has a session for it)
IdPLogoutRequest(s) == /\ nidp < MaxIdp
                       /\ nidp' = nidp + 1 /\ net' = net \cup {IdpLogoutReq(nidp + 1, s, "idp")}
                       /\ Log(<<"IdPLogoutRequest", nidp + 1, s, "idp">>) /\ UNCHANGED <<nreq, pending, sessions, lpending>>
\* the attacker does the same, signed with its own key or not signed at all
AttForgeLogoutRequest(s, by) == /\ nidp < MaxIdp /\ by \in {"att", "none"}
                                /\ nidp' = nidp + 1 /\ net' = net \cup {IdpLogoutReq(nidp + 1, s, by)}
                                /\ Log(<<"AttForgeLogoutRequest", nidp + 1, s, by>>) /\ UNCHANGED <<nreq, pending, sessions, lpending>>
\* the SP consumes a LogoutRequest (ValidateEncodedLogoutRequestPOST): only one that the library reports as
\* signature-validated (C04, C10) ends the subject's sessions and is answered with a LogoutResponse
\* (BuildLogoutResponseDocument) whose InResponseTo is the request's ID
SPConsumeLogoutRequest(m) == /\ m \in net /\ m.t = "IdPLogoutRequest"
                             /\ IF m.by = "idp"
                                THEN /\ sessions' = { s \in sessions : s.subj # m.subj }
                                     /\ net' = net \cup {SpLogoutResp(m.id)}
                                ELSE UNCHANGED <<sessions, net>>
                             /\ Log(<<"SPConsumeLogoutRequest", m.id, m.subj, m.by>>) /\ UNCHANGED <<nreq, pending, lpending, nidp>>

Next == /\ Len(hist) < MaxSteps
        /\ \/ SPStart
           \/ \E m \in net, s \in Subjects : IdPRespond(m, s)
           \/ \E i \in ReqIds, s \in Subjects : AttForge(i, s)
           \/ \E m \in net : SPConsume(m)
           \/ \E s \in sessions : SPLogout(s)
           \/ \E m \in net : IdPLogoutRespond(m)
           \/ \E i \in ReqIds : AttForgeLogout(i)
           \/ \E m \in net : SPConsumeLogout(m)
           \/ \E s \in Subjects : IdPLogoutRequest(s)
           \/ \E s \in Subjects, by \in {"att", "none"} : AttForgeLogoutRequest(s, by)
           \/ \E m \in net : SPConsumeLogoutRequest(m)
Spec == Init /\ [][Next]_vars

---------------------------------------------------------------------------
\* every session was vouched for by the IdP, in answer to a request of this SP
Authentic == \A s \in sessions : Resp(s.via, s.subj, "idp") \in net /\ AuthnReq(s.via) \in net
\* one request leads to at most one session: a replayed Response is refused by the caller's bookkeeping
NoReplay == \A s1, s2 \in sessions : s1.via = s2.via => s1 = s2
\* nobody but the IdP can make the SP believe a logout happened
PendingSane == \A p \in lpending : LogoutReq(p.id, p.subj) \in net
\* sessions only ever end on an IdP-signed message: its answer to a pending LogoutRequest of this SP, or its own request
LogoutOnlyByIdP == [][(\E s \in sessions : s \notin sessions') =>
                        \/ \E m \in net : m.t = "LogoutResponse" /\ m.by = "idp" /\ \E p \in lpending : p.id = m.irt
                        \/ \E m \in net : m.t = "IdPLogoutRequest" /\ m.by = "idp"]_vars
\* the SP answers only requests the IdP signed, and names the request it answers
AnswersOnlyIdP == \A m \in net : m.t = "SPLogoutResponse" => \E q \in net : q.t = "IdPLogoutRequest" /\ q.by = "idp" /\ q.id = m.irt
=============================================================================
