SPECIFICATION TSpec
CONSTANTS
  Subjects = {"alice", "bob"}
  MaxReq = 3
  MaxSteps = 9
INVARIANTS Authentic NoReplay PendingSane
CHECK_DEADLOCK FALSE
