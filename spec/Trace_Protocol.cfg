SPECIFICATION TSpec
CONSTANTS
  Subjects = {"alice", "bob"}
  MaxReq = 3
  MaxIdp = 3
  MaxSteps = 9
INVARIANTS Authentic NoReplay PendingSane AnswersOnlyIdP
CHECK_DEADLOCK FALSE
