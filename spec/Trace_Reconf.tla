------------------------------ MODULE Trace_Reconf ------------------------------
EXTENDS Reconf, Json, IOUtils
VARIABLE l
Trace == ndJsonDeserialize(IOEnv.VERIF_TRACE)
\* one violated clause names all four properties it is an instance of
Verdict(t) == [case |-> t.case, fails |-> IF Cur_OK(t.input.h, t.obs) THEN {} ELSE {"C01", "C02", "C07", "C08", "C10", "C17"},
               drift |-> t.obs.steps # ModelOut(t.input.h)]
Init == l = 1
Next == /\ l <= Len(Trace)
        /\ Serialize(ToJson(Verdict(Trace[l])) \o "\n", IOEnv.VERIF_VERDICT,
                     [format |-> "TXT", charset |-> "UTF-8", openOptions |-> <<"WRITE", "CREATE", "APPEND">>]).exitValue = 0
        /\ l' = l + 1
Spec == Init /\ [][Next]_l
TraceAccepted == TLCGet("stats").diameter - 1 = Len(Trace)
=============================================================================
