------------------------------ MODULE Forgery ------------------------------
(***************************************************************************)
(* Inbound SSO pipeline under attack (C01, C04, C07, C20, part of C02).    *)
(*                                                                         *)
(* Abstract document: a Response root with an optional root signature and  *)
(* 0..MaxKids "kids".  A kid is an assertion-shaped element described by   *)
(*   c     content identity: GA1, GA2 (IdP-issued), FA (forged), GA1adv    *)
(*         (IdP-issued: GA1 carrying, inside its Advice, a second          *)
(*         assertion GA2 with the IdP's own signature -- SAML allows       *)
(*         assertions as evidence there; the caller sees it as GA1)        *)
(*   sig   none | own (the IdP's enveloped signature over exactly this     *)
(*         content) | copied (the IdP's signature block lifted from the    *)
(*         other genuine assertion) | att (attacker key, attacker cert)    *)
(*         | attIdp (attacker key, IdP certificate shown)                  *)
(*   place direct | wrapped (inside a non-assertion wrapper under the      *)
(*         root) | nested (inside the Advice of an unsigned carrier        *)
(*         assertion "CA" that is a direct child)                          *)
(*   enc   encrypted to the SP certificate (anyone can do that)            *)
(*   id    own | a1 (forged content posing under GA1's ID)                 *)
(* Digests are symbolic: a signature verifies over the element it is       *)
(* enveloped in iff that element is what was signed (Dolev-Yao).           *)
(* The operators mirror gosaml2 decode_response.go:258-401 and goxmldsig   *)
(* v1.5.0 validate.go:403-583 block by block.                              *)
(***************************************************************************)
EXTENDS Naturals, Sequences, FiniteSets, TLC

CONSTANTS MaxKids,      \* number of kid slots
          Places,       \* subset of {"direct","wrapped","nested"}
          RIds,         \* subset of {"r1","rX","a1"}
          RSigs,        \* subset of {"none","att","attIdp","gen","lifted","reloc","malformed"}
                        \* reloc: the IdP's root signature moved into a wrapper child; malformed: the IdP's root
                        \* signature with its shape damaged (SignatureValue removed / SignedInfo or KeyInfo duplicated)
          KidSigs,      \* subset of {"none","own","copied","att","attIdp"}
          Slot2Places,  \* places allowed in slots after the first (bounds the product)
          Slot2Sigs     \* signature states allowed in slots after the first

Contents == {"GA1", "GA2", "FA", "GA1adv"}
Genuine  == {"GA1", "GA2", "GA1adv"}
\* what the caller can tell apart (the decoded assertion type has no Advice)
Ident(c) == IF c = "GA1adv" THEN "GA1" ELSE c

NatId(c) == CASE c = "GA1" -> "a1" [] c = "GA1adv" -> "a1" [] c = "GA2" -> "a2" [] c = "FA" -> "f1" [] OTHER -> "c1"
KidId(k) == IF k.id = "own" THEN NatId(k.c) ELSE k.id
Other(c) == IF c \in {"GA1", "GA1adv"} THEN "GA2" ELSE "GA1"

\* place "encwrap": the EncryptedAssertion IS a direct child of the root, but its plaintext is a wrapper element that
\* contains the assertion (the wrapping is inside the ciphertext)
KidOK(k, places) ==
    /\ k.c \in Contents /\ k.sig \in KidSigs /\ k.place \in places
    /\ (k.place = "encwrap" => k.enc)
    /\ (k.sig = "own" => k.c \in Genuine)
    /\ (k.id = "a1" => k.c = "FA")

KidsIn(places) == { k \in [c : Contents, sig : KidSigs, place : places, enc : BOOLEAN, id : {"own", "a1"}] : KidOK(k, places) }

KidSeqs == UNION { IF n = 0 THEN {<<>>}
                   ELSE IF n = 1 THEN { <<k>> : k \in KidsIn(Places) }
                   ELSE { <<k1, k2>> : k1 \in KidsIn(Places), k2 \in { k \in KidsIn(Slot2Places) : k.sig \in Slot2Sigs } } : n \in 0..MaxKids }

GR0Kids == << [c |-> "GA1", sig |-> "none", place |-> "direct", enc |-> FALSE, id |-> "own"] >>
IsGR0(in) == in.rid = "r1" /\ in.kids = GR0Kids

\* a document the IdP itself could have issued and signed at the root
Issuable(in) == /\ in.rid = "r1"
                /\ \A i \in DOMAIN in.kids : LET k == in.kids[i] IN
                       k.c \in Genuine /\ k.sig \in {"none", "own"} /\ k.place = "direct" /\ k.id = "own"

InputOK(in) == (in.rsig \in {"gen", "reloc", "malformed"} => Issuable(in))

Inputs == { in \in [rid : RIds, rsig : RSigs, kids : KidSeqs] : InputOK(in) }
\* (concretisation detail, chosen by seed like the layout: on odd seeds the sender also writes
\* SignatureValidated="true" attributes on every element it controls -- the result structs have a field
\* of that name and nothing in a message may set it)
Cfgs   == [skip : BOOLEAN]

---------------------------------------------------------------------------
(* Abstract XML-DSig (goxmldsig validate.go)                               *)

NoSig == [by |-> "none", shows |-> "none", ref |-> "none", over |-> "none"]

KSig(k) ==
  CASE k.sig = "own"    -> [by |-> "idpA", shows |-> "idpA", ref |-> NatId(k.c),        over |-> k.c]
    [] k.sig = "copied" -> [by |-> "idpA", shows |-> "idpA", ref |-> NatId(Other(k.c)), over |-> Other(k.c)]
    [] k.sig = "att"    -> [by |-> "att",  shows |-> "att",  ref |-> KidId(k),          over |-> "self"]
    [] k.sig = "attIdp" -> [by |-> "att",  shows |-> "idpA", ref |-> KidId(k),          over |-> "self"]
    [] OTHER            -> NoSig

RSig(in) ==
  CASE in.rsig = "att"    -> [by |-> "att",  shows |-> "att",  ref |-> in.rid, over |-> "self"]
    [] in.rsig = "attIdp" -> [by |-> "att",  shows |-> "idpA", ref |-> in.rid, over |-> "self"]
    [] in.rsig = "gen"    -> [by |-> "idpA", shows |-> "idpA", ref |-> in.rid, over |-> "self"]
    [] in.rsig = "lifted" -> [by |-> "idpA", shows |-> "idpA", ref |-> "r1",   over |-> "GR0"]
    [] in.rsig = "reloc"  -> [by |-> "idpA", shows |-> "idpA", ref |-> in.rid, over |-> "elsewhere"]   \* the wrapper it now sits in was not there when it was made
    [] in.rsig = "malformed" -> [by |-> "idpA", shows |-> "idpA", ref |-> in.rid, over |-> "self"]
    [] OTHER              -> NoSig

\* verifyCertificate (l.507-563): store = {idpA}, clock inside the window
CertOK(s)  == s.shows = "idpA"
\* cert.CheckSignature (l.286)
ValueOK(s) == s.by = s.shows

\* findSignature (l.403-505): all Signature elements under the element in
\* document order; the first one whose Reference names the element wins.
\* Signatures inside ciphertext are invisible.
Idx(in) == [i \in 1..Len(in.kids) |-> i]
RootCands(in) ==
   (IF in.rsig # "none" THEN << [origin |-> 0, s |-> RSig(in)] >> ELSE << >>) \o
   [i \in 1..Len(SelectSeq(Idx(in), LAMBDA j : ~in.kids[j].enc /\ in.kids[j].sig # "none")) |->
        LET j == SelectSeq(Idx(in), LAMBDA j2 : ~in.kids[j2].enc /\ in.kids[j2].sig # "none")[i]
        IN [origin |-> j, s |-> KSig(in.kids[j])] ]

RootMatch(in) == SelectSeq(RootCands(in), LAMBDA x : x.s.ref = in.rid)

\* Validate(root) (l.567-583)
RootVerify(in) ==
   IF in.rsig = "malformed" THEN "err_shape"     \* validateShape (l.387-400) fails before any reference is looked at
   ELSE IF RootMatch(in) = << >> THEN "missing"
   ELSE LET x == Head(RootMatch(in)) IN
        IF ~CertOK(x.s) THEN "err_cert"
        ELSE IF ~ValueOK(x.s) THEN "err_value"
        ELSE IF x.origin = 0 /\ (x.s.over = "self" \/ (x.s.over = "GR0" /\ IsGR0(in))) THEN "ok"
        ELSE "err_digest"     \* includes an adopted kid signature: digest is over the kid, not the root

\* Validate(detached assertion) for a direct kid (decode_response.go:361-371)
KidVerify(k) ==
   LET s == KSig(k) IN
   IF k.sig = "none" \/ s.ref # KidId(k) THEN "missing"
   ELSE IF ~CertOK(s) THEN "err_cert"
   ELSE IF ~ValueOK(s) THEN "err_value"
   ELSE IF s.over = "self" \/ (s.over = k.c /\ k.id = "own") THEN "ok"
   ELSE "err_digest"

---------------------------------------------------------------------------
(* Pipeline blocks, each a function of the work record w                   *)

Rej(w, why) == [w EXCEPT !.pc = "done", !.out = [res |-> "reject", rflag |-> FALSE, assertions |-> << >>, why |-> why]]
Acc(w, rf, as) == [w EXCEPT !.pc = "done", !.out = [res |-> "accept", rflag |-> rf, assertions |-> as, why |-> "none"]]

NoOut == [res |-> "pending", rflag |-> FALSE, assertions |-> << >>, why |-> "none"]
W0(cfg, in) == [pc |-> "Start", cfg |-> cfg, in |-> in, list |-> << >>, i |-> 0, out |-> NoOut]

PlainIdx(in) == SelectSeq(Idx(in), LAMBDA j : ~in.kids[j].enc)
EncIdx(in)   == SelectSeq(Idx(in), LAMBDA j : in.kids[j].enc)
\* tree order after decryptAssertions: plaintext nodes first, decrypted ones appended (AddChild, l.192)
AfterDecrypt(in) == PlainIdx(in) \o EncIdx(in)

\* decode_response.go:279-291 -- skip mode: direct Assertion children as presented;
\* the carrier of a nested kid is itself a direct assertion; nothing is decrypted
SkipList(in) ==
   LET vis == SelectSeq(Idx(in), LAMBDA j : (in.kids[j].place = "direct" /\ ~in.kids[j].enc) \/ in.kids[j].place = "nested")
   IN [i \in 1..Len(vis) |-> [c |-> IF in.kids[vis[i]].place = "nested" THEN "CA" ELSE Ident(in.kids[vis[i]].c), flag |-> FALSE]]

DoStart(w) == IF w.cfg.skip THEN [w EXCEPT !.pc = "SkipDecode"] ELSE [w EXCEPT !.pc = "RootVerify"]

DoSkipDecode(w) == [w EXCEPT !.pc = "Validate", !.list = SkipList(w.in)]

\* l.294-303
DoRootVerify(w) ==
   LET r == RootVerify(w.in) IN
   IF r = "missing" THEN [w EXCEPT !.pc = "UnsignedDecrypt"]
   ELSE IF r = "ok" THEN [w EXCEPT !.pc = "SignedDecrypt"]
   ELSE Rej(w, r)

\* decryptAssertions (l.150-201): any EncryptedAssertion not directly under the root is fatal
DecryptErr(in) == \E j \in DOMAIN in.kids : in.kids[j].enc /\ in.kids[j].place \notin {"direct", "encwrap"}

DoSignedDecrypt(w) == IF DecryptErr(w.in) THEN Rej(w, "enc_parent") ELSE [w EXCEPT !.pc = "SignedDecode"]

\* l.313-319: only direct children are decoded; assertion flags stay false
DoSignedDecode(w) ==
   LET ord == SelectSeq(AfterDecrypt(w.in), LAMBDA j : w.in.kids[j].place = "direct")
   IN [w EXCEPT !.pc = "Validate",
                !.list = [i \in 1..Len(ord) |-> [c |-> Ident(w.in.kids[ord[i]].c), flag |-> FALSE]],
                !.out = [w.out EXCEPT !.rflag = TRUE]]

\* l.341-349
DoUnsignedDecrypt(w) == IF DecryptErr(w.in) THEN Rej(w, "enc_parent") ELSE [w EXCEPT !.pc = "UnsignedLoop", !.i = 1, !.list = << >>]

\* l.352-393, one assertion element per step, in tree order
DoUnsignedLoop(w) ==
   LET ord == AfterDecrypt(w.in) IN
   IF w.i > Len(ord) THEN [w EXCEPT !.pc = "Validate"]
   ELSE LET k == w.in.kids[ord[w.i]] IN
        IF k.place \in {"wrapped", "encwrap"} THEN Rej(w, "assertion_parent")   \* encwrap: the decrypted wrapper now sits under the root
        ELSE IF k.place = "nested" THEN Rej(w, "missing")        \* the unsigned carrier is reached first
        ELSE LET r == KidVerify(k) IN
             IF r # "ok" THEN Rej(w, r)
             \* the search goes on below a verified assertion: the evidence assertion in its Advice is not a child of the Response
             ELSE IF k.c = "GA1adv" THEN Rej(w, "assertion_parent")
             ELSE [w EXCEPT !.i = w.i + 1, !.list = Append(w.list, [c |-> k.c, flag |-> TRUE])]

\* validate.go:136-245 -- every content in this family is profile-conformant, so
\* only "at least one assertion" can fail
DoValidate(w) == IF w.list = << >> THEN Rej(w, "no_assertion") ELSE Acc(w, w.out.rflag, w.list)

StepOf(w) ==
  CASE w.pc = "Start"           -> DoStart(w)
    [] w.pc = "SkipDecode"      -> DoSkipDecode(w)
    [] w.pc = "RootVerify"      -> DoRootVerify(w)
    [] w.pc = "SignedDecrypt"   -> DoSignedDecrypt(w)
    [] w.pc = "SignedDecode"    -> DoSignedDecode(w)
    [] w.pc = "UnsignedDecrypt" -> DoUnsignedDecrypt(w)
    [] w.pc = "UnsignedLoop"    -> DoUnsignedLoop(w)
    [] w.pc = "Validate"        -> DoValidate(w)

RECURSIVE Run(_)
Run(w) == IF w.pc = "done" THEN w ELSE Run(StepOf(w))

ModelOut(cfg, in) == Run(W0(cfg, in)).out

---------------------------------------------------------------------------
(* Property relation (monitors).  o is an observation: either the model's   *)
(* own outcome or one projected from the real code.                        *)

RootGenuine(in) == in.rsig = "gen" \/ (in.rsig = "lifted" /\ IsGR0(in))
OwnSigned(k)    == k.sig = "own" /\ k.id = "own"
DirectKids(in)  == { j \in DOMAIN in.kids : in.kids[j].place = "direct" }
\* contents that sit directly under the root and are covered by a valid IdP signature
Covered(in) == { Ident(in.kids[j].c) : j \in { j2 \in DirectKids(in) : RootGenuine(in) \/ OwnSigned(in.kids[j2]) } }
Count(seq, x) == Cardinality({ i \in DOMAIN seq : seq[i] = x })

C01_OK(cfg, in, o) ==
   (o.res = "accept" /\ ~cfg.skip) =>
      /\ \A i \in DOMAIN o.assertions : o.assertions[i].c \in Covered(in)
      \* nothing is returned more often than it was carried directly under the root
      /\ \A c \in Contents : Cardinality({ i \in DOMAIN o.assertions : o.assertions[i].c = c })
                               <= Cardinality({ j \in DirectKids(in) : Ident(in.kids[j].c) = c })
      \* an unsigned Response is accepted only if every assertion it carries is individually signed
      \* (a nested kid rides in an unsigned carrier assertion that is itself a direct child)
      /\ (~RootGenuine(in) => \A j \in DOMAIN in.kids : in.kids[j].place = "direct" /\ OwnSigned(in.kids[j]))
      /\ Len(o.assertions) >= 1
      \* nothing that no signature covers comes back inside an assertion reported as individually validated (the sender may
      \* add children to a genuine ds:Signature element: the enveloped-signature transform removes the element before digesting)
      /\ ~o.marked_flagged

\* the assertion-info summary describes the first returned assertion
Summary_OK(o) ==
   /\ (o.info.res = "accept") => (o.res = "accept" /\ o.info.first = o.assertions[1].c /\ o.info.n = Len(o.assertions))
   \* the assertions handed out with the summary carry the same flags as the validated ones
   /\ (o.info.res = "accept") => (o.info.aflags = [i \in DOMAIN o.assertions |-> o.assertions[i].flag])
   /\ (o.res = "reject") => o.info.res = "reject"

C04_OK(cfg, in, o) ==
   /\ (o.res = "accept" /\ o.rflag) => (RootGenuine(in) /\ ~cfg.skip)
   /\ (o.res = "accept") => \A i \in DOMAIN o.assertions :
          o.assertions[i].flag => (~cfg.skip /\ \E j \in DirectKids(in) : Ident(in.kids[j].c) = o.assertions[i].c /\ OwnSigned(in.kids[j]))
   /\ (o.res = "accept" /\ ~cfg.skip /\ ~o.rflag) => \A i \in DOMAIN o.assertions : o.assertions[i].flag
   /\ (o.info.res = "accept") => (o.info.iflag = o.rflag)
   \* every field returned equals the field of an element that was presented: what comes back is one of the contents
   /\ (o.res = "accept") => \A i \in DOMAIN o.assertions : o.assertions[i].c # "unknown"

C07_OK(cfg, in, o) ==
   (o.res = "accept" /\ ~cfg.skip) =>
      /\ \A j \in DOMAIN in.kids : in.kids[j].enc => in.kids[j].place \in {"direct", "encwrap"}
      /\ \A j \in DOMAIN in.kids : (in.kids[j].enc /\ ~RootGenuine(in)) => (in.kids[j].place = "direct" /\ OwnSigned(in.kids[j]))

\* C02 (fragment visible here): a root signature that names the root and does not verify is fatal
C02_OK(cfg, in, o) ==
   /\ (~cfg.skip /\ (in.rsig \in {"att", "attIdp", "reloc", "malformed"} \/ (in.rsig = "lifted" /\ in.rid = "r1" /\ ~IsGR0(in)))) => o.res = "reject"
   \* an assertion of an unsigned Response whose own signature is there but does not verify is fatal too, wherever it stands
   \* and whatever came before it
   /\ (~cfg.skip /\ in.rsig = "none" /\ \E j \in DOMAIN in.kids : in.kids[j].sig \in {"copied", "att", "attIdp"}) => o.res = "reject"

\* C20: whatever is accepted was pre-decoded to the same addressing fields
C20_OK(cfg, in, o) == (o.res = "accept") => (o.pre.ok /\ o.pre.agree)

\* C09 (fragment): exactly one of result / error, never a panic
C09_OK(cfg, in, o) == o.res \in {"accept", "reject"} /\ o.info.res \in {"accept", "reject"}

Conforms(m, o) == /\ o.res = m.res
                  /\ (m.res = "accept" => (o.rflag = m.rflag /\ o.assertions = m.assertions))
=============================================================================
