------------------------------- MODULE Logout -------------------------------
(***************************************************************************)
(* Inbound LogoutRequest / LogoutResponse (C10): decode_logout_request.go, *)
(* decode_response.go:501-541, validate.go:247-309.                        *)
(* doc.kind is the message presented, entry the validator it is given to   *)
(* (kind confusion when they differ).  sig is the signing state of the     *)
(* root: none | trusted | untrusted | tampered | wrapDiff / wrapSame (a    *)
(* genuine signed message wrapped inside an unsigned outer message with a  *)
(* different / the same ID) | relocated (the genuine root signature moved  *)
(* into a child wrapper).                                                  *)
(***************************************************************************)
EXTENDS Naturals, Sequences, FiniteSets, TLC

Sigs == {"none", "trusted", "untrusted", "tampered", "wrapDiff", "wrapSame", "relocated"}
\* sloCfg = FALSE: the SP has no single-logout URL configured (ServiceProviderSLOURL = ""); only an absent
\* Destination can then be "empty or equal to the SLO URL" -- in particular the ACS URL is not a fallback
Cfgs == [skip : BOOLEAN, issuerCfg : BOOLEAN, sloCfg : BOOLEAN]
FieldsOK == [version |-> "ok", dest |-> "ok", issuer |-> "ok", status |-> "ok"]
\* dest = "acs": the SP's assertion consumer URL (a different endpoint of the same SP)
\* dest = "near": a near miss of the SLO URL (query, fragment, userinfo, host case, trailing slash)
Same == [kind : {"req"}, entry : {"req"}, version : {"ok", "absent", "wrong"}, dest : {"ok", "absent", "other", "near", "acs"},
         issuer : {"ok", "absent", "other"}, status : {"ok"}, sig : Sigs] \cup
        [kind : {"resp"}, entry : {"resp"}, version : {"ok", "absent", "wrong"}, dest : {"ok", "absent", "other", "near", "acs"},
         issuer : {"ok", "absent", "other"}, status : {"ok", "nostatus", "nocode", "fail", "nestfail"}, sig : Sigs]
Confused == { x \in [kind : {"req", "resp", "sso"}, entry : {"req", "resp", "sso"}, version : {"ok"}, dest : {"ok"},
                     issuer : {"ok"}, status : {"ok"}, sig : {"none", "trusted"}] : x.kind # x.entry }
Inputs == Same \cup Confused

\* the Destination attribute is present and is not the configured SLO URL
DestBad(cfg, in) == in.dest \in {"other", "near", "acs"} \/ (~cfg.sloCfg /\ in.dest # "absent")

NoErr == [cls |-> "none", type |-> "none", name |-> "none"]
E(t, n) == [cls |-> "typed", type |-> t, name |-> n]
Other(why) == [cls |-> "other", type |-> "none", name |-> why]

\* validateElementSignature on the root
Verify(in) == CASE in.sig = "none"      -> "missing"
                [] in.sig = "trusted"   -> "ok"
                [] in.sig = "wrapDiff"  -> "missing"     \* the inner signature names another ID
                [] OTHER                -> "error"       \* untrusted: certificate; tampered, wrapSame, relocated: digest

FieldCheck(cfg, in) ==
   IF DestBad(cfg, in) THEN E("ErrInvalidValue", "destination")
   ELSE IF in.version # "ok" THEN E("ErrInvalidValue", "samlversion")
   ELSE IF in.issuer = "absent" THEN E("ErrMissingElement", "issuer")
   ELSE IF cfg.issuerCfg /\ in.issuer = "other" THEN E("ErrInvalidValue", "issuer")
   ELSE IF in.kind = "resp" /\ in.status = "nostatus" THEN E("ErrMissingElement", "status")
   ELSE IF in.kind = "resp" /\ in.status = "nocode" THEN E("ErrMissingElement", "statuscode")
   ELSE IF in.kind = "resp" /\ in.status \in {"fail", "nestfail"} THEN E("ErrInvalidValue", "statuscode")
   ELSE NoErr

Rej(e) == [res |-> "reject", flag |-> FALSE, fields |-> "none", err |-> e]
ModelOut(cfg, in) ==
   LET v == IF cfg.skip THEN "skipped" ELSE Verify(in) IN
   IF v = "error" THEN Rej(Other("signature"))
   ELSE IF in.kind # in.entry THEN Rej(Other("kind"))
   ELSE LET e == FieldCheck(cfg, in) IN
        IF e.cls # "none" THEN Rej(e)
        ELSE [res |-> "accept", flag |-> (v = "ok"), fields |-> "root", err |-> NoErr]

---------------------------------------------------------------------------
V(t, names) == [type |-> t, names |-> names]
Viol(cfg, in) ==
   (IF DestBad(cfg, in) THEN {V("ErrInvalidValue", {"destination"})} ELSE {}) \cup
   (IF in.version # "ok" THEN {V("ErrInvalidValue", {"samlversion", "version"})} ELSE {}) \cup
   (IF in.issuer = "absent" THEN {V("ErrMissingElement", {"issuer"})} ELSE {}) \cup
   (IF cfg.issuerCfg /\ in.issuer = "other" THEN {V("ErrInvalidValue", {"issuer"})} ELSE {}) \cup
   (IF in.kind = "resp" /\ in.status = "nostatus" THEN {V("ErrMissingElement", {"status"})} ELSE {}) \cup
   (IF in.kind = "resp" /\ in.status = "nocode" THEN {V("ErrMissingElement", {"statuscode", "status"})} ELSE {}) \cup
   (IF in.kind = "resp" /\ in.status \in {"fail", "nestfail"} THEN {V("ErrInvalidValue", {"statuscode", "status"})} ELSE {})
Names(e) == { e.names[i] : i \in DOMAIN e.names }
Matches(e, v) == e.cls = "typed" /\ e.type = v.type /\ Names(e) \cap v.names # {}
\* the signature state lets field validation be reached
SigClean(cfg, in) == cfg.skip \/ in.sig \in {"none", "trusted", "wrapDiff"}

\* o: [res, flag, fields ("root" = the fields of the presented root, as signed when it is signed), err]
C10_OK(cfg, in, o) ==
   LET F == Viol(cfg, in) IN
   /\ (in.kind # in.entry) => o.res = "reject"
   /\ (o.res = "accept") => (F = {} /\ o.fields = "root")
   /\ (F # {}) => o.res = "reject"
   /\ (Cardinality(F) = 1 /\ SigClean(cfg, in) /\ in.kind = in.entry) => \E v \in F : Matches(o.err, v)
   /\ (o.res = "accept" /\ cfg.skip) => ~o.flag
   /\ (o.res = "accept" /\ ~cfg.skip) => (o.flag <=> in.sig = "trusted")
   \* C02: a root signature that names the root and does not verify is fatal
   /\ (~cfg.skip /\ in.sig \in {"untrusted", "tampered", "wrapSame", "relocated"}) => o.res = "reject"
\* C02's clause on its own: a signature that names the root and does not verify is never downgraded to "unsigned"
C02_OK(cfg, in, o) == (~cfg.skip /\ in.sig \in {"untrusted", "tampered", "wrapSame", "relocated"}) => o.res = "reject"
C04_OK(cfg, in, o) == (o.res = "accept" /\ o.flag) => (~cfg.skip /\ in.sig = "trusted" /\ o.fields = "root")
C09_OK(cfg, in, o) == o.res \in {"accept", "reject"}

ObsErrIs(e, m) == CASE m.cls = "none" -> e.cls = "none"
                    [] m.cls = "typed" -> (e.cls = "typed" /\ e.type = m.type /\ m.name \in Names(e))
                    [] OTHER -> e.cls = "other"
Conforms(m, o) == o.res = m.res /\ ObsErrIs(o.err, m.err) /\ (m.res = "accept" => (o.flag = m.flag /\ o.fields = m.fields))
=============================================================================
