SPECIFICATION Spec
INVARIANTS InvC10 InvC04 RunAgrees Emit
PROPERTIES Frozen Terminates
CHECK_DEADLOCK FALSE
