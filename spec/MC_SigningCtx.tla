--------------------------- MODULE MC_SigningCtx ---------------------------
EXTENDS SigningCtx, Json, IOUtils

AllDone == \A self \in ProcSet : pc[self] = "Done"
WriterSection(p) == pc[p] \in {"L_publish", "L_config", "L_unlock"}
ReaderSection(p) == pc[p] \in {"L_read", "L_runlock"}
\* the lock protocol excludes conflicting accesses to the shared pointer and to the context being configured
NoRace == \A p, q \in ProcSet : (p # q) => ~(WriterSection(p) /\ (ReaderSection(q) \/ WriterSection(q)))
\* a caller never observes, and is never handed, a context that is not fully configured
SeenConfigured     == \A self \in ProcSet : local[self] # 0 => local[self] \in configured
ReturnedConfigured == \A self \in ProcSet : \A i \in DOMAIN ret[self] : ret[self][i] \in configured
\* every call returns exactly one context
CallsAccounted == \A self \in ProcSet : Len(ret[self]) + calls[self] = K
\* once published, the pointer never goes back to nil
Monotone == [][ptr # 0 => ptr' # 0]_vars
FairSpec == Spec /\ \A self \in ProcSet : WF_vars(g(self))

Emit == AllDone =>
   Serialize(ToJson([family |-> "SigningCtx", cfg |-> [n |-> N, k |-> K], input |-> [sched |-> sched], model_out |-> [ret |-> ret]]) \o "\n",
             IOEnv.VERIF_OUT, [format |-> "TXT", charset |-> "UTF-8", openOptions |-> <<"WRITE", "CREATE", "APPEND">>]).exitValue = 0
=============================================================================
