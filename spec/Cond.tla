-------------------------------- MODULE Cond --------------------------------
(***************************************************************************)
(* Audience / one-time-use / proxy warnings (C06): validate.go:101-135.    *)
(* Audience values are tokens; "match" is the configured URI, "case",      *)
(* "slash", "ws" are near misses of it, "other" is unrelated, "emptyaud"   *)
(* is an Audience element with empty text.  The configured audience is     *)
(* "uri", "empty" (the empty string), "padded" (the URI with white space   *)
(* around it) or "space" (one blank); "match" is byte-identical to what    *)
(* is configured (for "empty": the plain URI, which then matches nothing). *)
(* authn: whether the first assertion carries an AuthnStatement (the       *)
(* warnings do not depend on it).                                          *)
(***************************************************************************)
EXTENDS Naturals, Sequences, FiniteSets, TLC

CONSTANTS MaxRestrictions, AudTokens

Seqs(S, n) == UNION { [1..k -> S] : k \in 0..n }
Restrictions == Seqs(AudTokens, 2)
\* "neg" is -1, "max" is 9223372036854775807 (legal xs:nonNegativeInteger it is not, an int it is; what the IdP signed is
\* what the caller gets)
Counts == {"absent", "0", "1", "5", "neg", "max"}
ProxyShapes == {[present |-> FALSE, count |-> "absent", aud |-> << >>]} \cup
               [present : {TRUE}, count : Counts, aud : Seqs({"match", "other"}, 2)]
NoProxy == [present |-> FALSE, count |-> "absent", aud |-> << >>]
FixedAr == << <<"match">> >>

Cfgs   == [aud : {"uri", "empty", "padded", "space"}]
\* the two dimensions are varied one at a time to keep the product small
\* win: the SP clock relative to the Conditions validity window (the subject confirmation stays valid,
\* so the Response is accepted either way and only the time warning differs)
Wins == {"in", "before", "after"}
Inputs == [ars : Seqs(Restrictions, MaxRestrictions), otu : BOOLEAN, proxy : {NoProxy}, win : Wins, authn : BOOLEAN] \cup
          [ars : {FixedAr, << >>}, otu : BOOLEAN, proxy : ProxyShapes, win : Wins, authn : BOOLEAN]

\* exact string equality after concretisation
Eq(tok, cfgaud) == (cfgaud \in {"uri", "padded", "space"} /\ tok = "match") \/ (cfgaud = "empty" /\ tok = "emptyaud")

\* validate.go:101-116
RECURSIVE Loop(_, _, _)
Loop(cfg, ars, i) ==
   IF i > Len(ars) THEN FALSE
   ELSE IF \E j \in DOMAIN ars[i] : Eq(ars[i][j], cfg.aud) THEN Loop(cfg, ars, i + 1) ELSE TRUE
CountNum(c) == IF c = "absent" THEN "0" ELSE c       \* the count as a token (an absent Count reads as 0)
ModelOut(cfg, in) == [res |-> "accept", time |-> in.win # "in", nia |-> Loop(cfg, in.ars, 1), otu |-> in.otu,
                      proxy |-> [present |-> in.proxy.present, count |-> CountNum(in.proxy.count), aud |-> in.proxy.aud]]

---------------------------------------------------------------------------
\* o: [res, nia, otu, proxy : [present, count (number), aud (sequence of tokens)]]
C06_OK(cfg, in, o) ==
   /\ o.res = "accept"                                  \* conditions only ever warn
   /\ o.time <=> in.win # "in"                          \* (C05) and the other warnings do not depend on it
   /\ o.nia <=> (\E i \in DOMAIN in.ars : \A j \in DOMAIN in.ars[i] : ~Eq(in.ars[i][j], cfg.aud))
   /\ o.otu <=> in.otu
   /\ o.proxy.present <=> in.proxy.present
   /\ in.proxy.present => (o.proxy.count = CountNum(in.proxy.count) /\ o.proxy.aud = in.proxy.aud)
C09_OK(cfg, in, o) == o.res \in {"accept", "reject"}
Conforms(m, o) == o.res = m.res /\ o.time = m.time /\ o.nia = m.nia /\ o.otu = m.otu /\ o.proxy = m.proxy
=============================================================================
