------------------------------ MODULE Outbound ------------------------------
(***************************************************************************)
(* What the SP produces (C13 enveloped signatures, C15 message shape,      *)
(* C19 metadata): build_request.go, build_logout_response.go, saml.go.     *)
(* Key sources: encField / encSetter (encryption key by deprecated field / *)
(* by SetSPKeyStore), signField / signSetter (explicit signing key).  Four *)
(* distinct key pairs, so "which key signed" is observable.                *)
(* Sub-spaces (one concern each):                                          *)
(*   keys   key configuration x algorithm x canonicaliser x message kind   *)
(*   shape  boolean / optional settings x clock zone x string class        *)
(*   meta   metadata variant x validity hours x options x key config       *)
(***************************************************************************)
EXTENDS Naturals, Integers, Sequences, FiniteSets, TLC

CONSTANTS StrClasses, HoursSet

KeySrc == {"none", "field", "setter", "both"}
Kinds  == {"authn", "logoutReq", "logoutResp"}
Algs   == {"unset", "rsa-sha1", "rsa-sha256", "rsa-sha384", "rsa-sha512", "ecdsa-sha256"}
C14Ns  == {"unset", "exc", "exccom", "c14n11", "c14n11com", "c14n10", "c14n10com"}

Base == [sub |-> "keys", kind |-> "authn", encKey |-> "field", signKey |-> "none", alg |-> "unset", c14n |-> "unset",
         signReq |-> TRUE, spIssuer |-> TRUE, forceAuthn |-> FALSE, isPassive |-> FALSE, nameIdFormat |-> TRUE, rac |-> "nil",
         zone |-> "utc", strclass |-> "plain", variant |-> "plain", hours |-> "0", skip |-> FALSE, keytype |-> "rsa", via |-> "doc"]

\* the key that must sign: explicit signing key if any (setter over field), else the encryption key (setter over field)
Signer(in) == IF in.signKey \in {"setter", "both"} THEN "signSetter"
              ELSE IF in.signKey = "field" THEN "signField"
              ELSE IF in.encKey \in {"setter", "both"} THEN "encSetter"
              ELSE IF in.encKey = "field" THEN "encField" ELSE "none"
EncCert(in) == IF in.encKey \in {"setter", "both"} THEN "encSetter" ELSE IF in.encKey = "field" THEN "encField" ELSE "none"
\* an ECDSA key can only be supplied through a setter (the deprecated fields are RSA-only);
\* keytype is the type of the key that must sign
AlgOK(in) == in.keytype = "ec" => Signer(in) \in {"signSetter", "encSetter"}

Keys  == { x \in { [Base EXCEPT !.sub = "keys", !.kind = k, !.encKey = e, !.signKey = s, !.alg = a, !.c14n = c, !.keytype = kt] :
                     k \in Kinds, e \in KeySrc, s \in KeySrc, a \in Algs, c \in C14Ns, kt \in {"rsa", "ec"} } :
             Signer(x) # "none" /\ AlgOK(x) }
\* via: how the message is serialised -- "doc": the returned document; "post": through the POST-binding form builder
Shape == { [Base EXCEPT !.sub = "shape", !.kind = k, !.spIssuer = i, !.forceAuthn = f, !.isPassive = p, !.nameIdFormat = n,
                        !.rac = r, !.zone = z, !.strclass = sc, !.signReq = sr, !.via = v] :
             v \in {"doc", "post"},
             k \in Kinds, i \in BOOLEAN, f \in BOOLEAN, p \in BOOLEAN, n \in BOOLEAN, r \in {"nil", "zero", "one", "two"},
             z \in {"utc", "+0530", "-0800", "dst"}, sc \in StrClasses, sr \in BOOLEAN }
Meta  == { x \in { [Base EXCEPT !.sub = "meta", !.kind = "metadata", !.variant = v, !.hours = h, !.signReq = sr, !.skip = sk,
                                !.strclass = sc, !.encKey = e, !.signKey = s, !.zone = z, !.spIssuer = i] :
                     i \in BOOLEAN,
                     v \in {"plain", "slo"}, h \in HoursSet, sr \in BOOLEAN, sk \in BOOLEAN, sc \in StrClasses,
                     e \in {"field", "setter", "both"}, s \in KeySrc, z \in {"utc", "+0530", "dst"} } :
             /\ (x.variant = "plain" => x.hours = "0")
             \* (the fall-back of the entity ID is independent of strings, zones and hours: one representative of each)
             /\ (~x.spIssuer => (x.strclass = "plain" /\ x.zone = "utc" /\ x.hours = "0")) }
Inputs == Keys \cup Shape \cup Meta
Cfgs == [x : {0}]

\* the configured algorithm is used when it fits the key; otherwise the library default: SHA-256 with the key's algorithm
AlgFits(in) == in.alg # "unset" /\ ((in.alg = "ecdsa-sha256") <=> (in.keytype = "ec"))
ExpAlg(in)  == IF AlgFits(in) THEN in.alg ELSE IF in.keytype = "ec" THEN "ecdsa-sha256" ELSE "rsa-sha256"
ExpC14n(in) == IF in.c14n = "unset" THEN "c14n11" ELSE in.c14n   \* goxmldsig default signing canonicaliser: Canonical XML 1.1
IsSigned(in) == in.kind # "authn" \/ in.signReq

\* SAML protocol schema sequences (saml-schema-protocol-2.0.xsd)
Rank(kind, name) ==
   CASE name = "Issuer" -> 1 [] name = "Signature" -> 2 [] name = "Extensions" -> 3
     [] kind = "authn" /\ name = "Subject" -> 4
     [] kind = "authn" /\ name = "NameIDPolicy" -> 5
     [] kind = "authn" /\ name = "Conditions" -> 6
     [] kind = "authn" /\ name = "RequestedAuthnContext" -> 7
     [] kind = "authn" /\ name = "Scoping" -> 8
     [] kind = "logoutReq" /\ name \in {"BaseID", "NameID", "EncryptedID"} -> 4
     [] kind = "logoutReq" /\ name = "SessionIndex" -> 5
     [] kind = "logoutResp" /\ name = "Status" -> 4
     [] OTHER -> 99
Ordered(kind, ch) == \A i \in 1..(Len(ch) - 1) : Rank(kind, ch[i]) <= Rank(kind, ch[i + 1])
Known(kind, ch)   == \A i \in DOMAIN ch : Rank(kind, ch[i]) < 99
Has(ch, n) == \E i \in DOMAIN ch : ch[i] = n
Required(in) == {"Issuer"} \cup
                (IF IsSigned(in) THEN {"Signature"} ELSE {}) \cup
                (IF in.kind = "authn" THEN {"NameIDPolicy"} \cup (IF in.rac # "nil" THEN {"RequestedAuthnContext"} ELSE {}) ELSE {}) \cup
                (IF in.kind = "logoutReq" THEN {"NameID", "SessionIndex"} ELSE {}) \cup
                (IF in.kind = "logoutResp" THEN {"Status"} ELSE {})
RootName(kind) == CASE kind = "authn" -> "AuthnRequest" [] kind = "logoutReq" -> "LogoutRequest" [] OTHER -> "LogoutResponse"

\* the model's prediction of the abstract outcome
ModelChildren(in) ==
   <<"Issuer">> \o (IF IsSigned(in) THEN <<"Signature">> ELSE << >>) \o
   (CASE in.kind = "authn" -> <<"NameIDPolicy">> \o (IF in.rac # "nil" THEN <<"RequestedAuthnContext">> ELSE << >>)
      [] in.kind = "logoutReq" -> <<"NameID", "SessionIndex">>
      [] OTHER -> <<"Status">>)
ModelOut(cfg, in) ==
   IF in.sub = "meta" THEN [built |-> TRUE, children |-> << >>, signer |-> Signer(in), enc |-> EncCert(in)]
   ELSE [built |-> TRUE, children |-> ModelChildren(in), signer |-> IF IsSigned(in) THEN Signer(in) ELSE "none", enc |-> "na"]

---------------------------------------------------------------------------
\* o (messages): [built, wellformed, rootname, rootns_ok, children, version, instant_ok, dest_ok, issuer ("sp"|"idp"|other),
\*                values_ok, skeleton_ok, sigcount, sigpos_ok, verified_by, embedded, reported, metasign, alg, c14n, digest_ok]
C13_OK(cfg, in, o) ==
   (in.sub # "meta" /\ IsSigned(in)) =>
      /\ o.built /\ o.wellformed
      /\ o.sigcount = 1 /\ o.sigpos_ok
      /\ o.verified_by = Signer(in) /\ o.digest_ok
      /\ o.embedded = Signer(in)
      /\ o.reported = Signer(in)
      /\ o.metasign \in {Signer(in), "na"}       \* "na": metadata cannot be produced without an encryption key
      /\ o.alg = ExpAlg(in) /\ o.c14n = ExpC14n(in)

C15_OK(cfg, in, o) ==
   (in.sub # "meta") =>
      /\ o.built /\ o.wellformed
      /\ o.rootname = RootName(in.kind) /\ o.rootns_ok
      /\ Ordered(in.kind, o.children) /\ Known(in.kind, o.children)
      /\ \A n \in Required(in) : Has(o.children, n)
      /\ (~IsSigned(in)) => ~Has(o.children, "Signature")
      /\ o.version = "2.0" /\ o.instant_ok /\ o.dest_ok
      /\ o.issuer = (IF in.spIssuer THEN "sp" ELSE "idp")
      /\ o.values_ok /\ o.skeleton_ok

\* o (metadata): [built, wellformed, entity_ok, acs_ok, slo_ok, flags_ok, signcert, enccert, methods_ok, valid_ok, roundtrip_ok, message_signer]
C19_OK(cfg, in, o) ==
   (in.sub = "meta") =>
      /\ o.built /\ o.wellformed
      /\ o.entity_ok /\ o.acs_ok /\ o.slo_ok /\ o.flags_ok
      /\ o.signcert = Signer(in) /\ o.signcert = o.message_signer     \* the key that actually signs (C13)
      /\ o.enccert = EncCert(in) /\ o.decrypts                        \* the key that actually decrypts (C11)
      /\ o.methods_ok /\ o.valid_ok /\ o.roundtrip_ok

\* C11 (fragment): every data-encryption method the metadata advertises decrypts
C11_OK(cfg, in, o) == (in.sub = "meta") => (o.built /\ o.methods_ok /\ o.decrypts)

Conforms(in, m, o) ==
   /\ o.built = m.built
   /\ (in.sub # "meta" => (o.children = m.children /\ (IsSigned(in) => o.verified_by = m.signer)))
   /\ (in.sub = "meta" => (o.signcert = m.signer /\ o.enccert = m.enc))
=============================================================================
