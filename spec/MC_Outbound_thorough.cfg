SPECIFICATION Spec
CONSTANTS
  StrClasses = {"srclit", "blank", "plain", "markup", "ws", "nonascii", "tricky"}
  HoursSet = {"-5", "0", "1", "5", "24", "8760", "1000000"}
INVARIANTS InvShape InvMeta Emit
PROPERTIES Terminates
CHECK_DEADLOCK FALSE
