----------------------------- MODULE MC_Profile -----------------------------
EXTENDS Profile, Json, IOUtils
VARIABLES pc, cfg, in, i, out
vars == <<pc, cfg, in, i, out>>
Pending == [res |-> "pending", err |-> NoErr]
Init == /\ pc = "Verify" /\ i = 1 /\ out = Pending
        /\ cfg \in Cfgs /\ in \in Inputs /\ CaseOK(cfg, in)
Finish(e) == /\ pc' = "done" /\ out' = [res |-> IF e.cls = "none" THEN "accept" ELSE "reject", err |-> e]
\* signature stage: in the assertion-by-assertion walk an assertion that is not a child of the Response is fatal
Verify == /\ pc = "Verify"
          /\ IF Blocked(in) THEN Finish(Other) ELSE pc' = "Root" /\ UNCHANGED out
          /\ UNCHANGED <<cfg, in, i>>
\* validateResponseAttributes + response-level part of Validate (validate.go:137-176)
RootChecks == /\ pc = "Root"
              /\ LET e == RootCheck(cfg, in.doc.root, Len(in.doc.as)) IN
                 IF e.cls # "none" THEN Finish(e) /\ UNCHANGED i ELSE pc' = "Assertion" /\ UNCHANGED <<i, out>>
              /\ UNCHANGED <<cfg, in>>
\* one iteration of the per-assertion loop (validate.go:178-242)
AssertionChecks == /\ pc = "Assertion"
                   /\ IF i > Len(in.doc.as) THEN Finish(NoErr) /\ UNCHANGED i
                      ELSE LET e == AsCheck(cfg, in.doc.as[i]) IN
                           IF e.cls # "none" THEN Finish(e) /\ UNCHANGED i ELSE i' = i + 1 /\ UNCHANGED <<pc, out>>
                   /\ UNCHANGED <<cfg, in>>
Next == Verify \/ RootChecks \/ AssertionChecks
Spec == Init /\ [][Next]_vars /\ WF_vars(Next)
Done == pc = "done"
AsObs(o) == [res |-> o.res, err |-> [cls |-> o.err.cls, type |-> o.err.type, names |-> <<o.err.name>>],
             info |-> [res |-> o.res, err |-> [cls |-> o.err.cls, type |-> o.err.type, names |-> <<o.err.name>>]],
             rflag |-> (in.sigmode = "root" /\ ~cfg.skip), iflag |-> (in.sigmode = "root" /\ ~cfg.skip)]
InvC03 == Done => C03_OK(cfg, in, AsObs(out))
RunAgrees == Done => out = ModelOut(cfg, in)
\* every assertion position is examined before acceptance
AllExamined == (Done /\ out.res = "accept") => i = Len(in.doc.as) + 1
Frozen == [][cfg' = cfg /\ in' = in]_vars
Terminates == <>Done
Emit == Done =>
   Serialize(ToJson([family |-> "Profile", cfg |-> cfg, input |-> in, model_out |-> out]) \o "\n", IOEnv.VERIF_OUT,
             [format |-> "TXT", charset |-> "UTF-8", openOptions |-> <<"WRITE", "CREATE", "APPEND">>]).exitValue = 0
=============================================================================
