SPECIFICATION Spec
CONSTANTS
  Positions = 0
POSTCONDITION TraceAccepted
CHECK_DEADLOCK FALSE
