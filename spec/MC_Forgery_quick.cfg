SPECIFICATION Spec
CONSTANTS
  MaxKids = 2
  Places = {"direct", "wrapped", "nested", "encwrap"}
  Slot2Places = {"direct"}
  Slot2Sigs = {"none", "own", "att"}
  RIds = {"r1", "rX", "a1"}
  RSigs = {"none", "att", "attIdp", "gen", "lifted", "reloc", "malformed"}
  KidSigs = {"none", "own", "copied", "att", "attIdp"}
INVARIANTS TypeOK InvC01 InvC02 InvC04 InvC07 InvSum OnlyVerifiedReachValidate RunAgrees Emit
PROPERTIES Frozen Terminates
CHECK_DEADLOCK FALSE
