SPECIFICATION Spec
CONSTANTS
  Positions = 24
INVARIANTS Emit
PROPERTIES Terminates
CHECK_DEADLOCK FALSE
