----------------------------- MODULE MC_Concur -----------------------------
EXTENDS Concur, Json, IOUtils
(* The abstract run of one case.  Calls are atomic with respect to each other's results because they share no   *)
(* variable: `done` collects the operations that returned, `wrong` those whose result is not their own -- no     *)
(* action ever adds to it, which is the content of the model.                                                    *)
VARIABLES pc, cfg, in, done, wrong, held
vars == <<pc, cfg, in, done, wrong, held>>
Init == pc = "run" /\ cfg \in Cfgs /\ in \in Inputs /\ done = {} /\ wrong = {} /\ held = FALSE
\* stress: some operation of the mix completes a call (any order, any number of times: a set suffices)
Call(op) == /\ pc = "run" /\ in.mode = "stress" /\ in.ops # Ops /\ op \in in.ops /\ op \notin done
            /\ done' = done \cup {op} /\ UNCHANGED <<pc, cfg, in, wrong, held>>
\* the round with every operation (stress or cold start): one step, the order within it is immaterial to the model
CallAll == /\ pc = "run" /\ in.mode \in {"stress", "cold"} /\ in.ops = Ops /\ done = {}
           /\ done' = Ops /\ UNCHANGED <<pc, cfg, in, wrong, held>>
\* parked: a runs up to its gate, b runs entirely, a finishes
Hold    == /\ pc = "run" /\ in.mode = "parked" /\ ~held /\ done = {}
           /\ held' = TRUE /\ UNCHANGED <<pc, cfg, in, done, wrong>>
RunB    == /\ pc = "run" /\ in.mode = "parked" /\ held /\ in.b \notin done
           /\ done' = done \cup {in.b} /\ UNCHANGED <<pc, cfg, in, wrong, held>>
Resume  == /\ pc = "run" /\ in.mode = "parked" /\ held /\ in.b \in done
           /\ done' = done \cup {in.a} /\ pc' = "done" /\ UNCHANGED <<cfg, in, wrong, held>>
Finish  == /\ pc = "run" /\ in.mode \in {"stress", "cold"} /\ done = in.ops
           /\ pc' = "done" /\ UNCHANGED <<cfg, in, done, wrong, held>>
Next == (\E op \in Ops : Call(op)) \/ CallAll \/ Hold \/ RunB \/ Resume \/ Finish
Spec == Init /\ [][Next]_vars /\ WF_vars(Next)
Done == pc = "done"
AsObs == [ran |-> done, wrong |-> wrong, reached |-> held, config_same |-> TRUE]
InvC17 == Done => C17_OK(cfg, in, AsObs)
RunAgrees == Done => (wrong = ModelOut(cfg, in).wrong /\ held = ModelOut(cfg, in).reached)
Frozen == [][cfg' = cfg /\ in' = in]_vars
Terminates == <>Done
Emit == Done =>
   Serialize(ToJson([family |-> "Concur", cfg |-> cfg, input |-> in, model_out |-> ModelOut(cfg, in)]) \o "\n", IOEnv.VERIF_OUT,
             [format |-> "TXT", charset |-> "UTF-8", openOptions |-> <<"WRITE", "CREATE", "APPEND">>]).exitValue = 0
=============================================================================
