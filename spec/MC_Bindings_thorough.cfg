SPECIFICATION Spec
CONSTANTS
  RelayClasses = {"empty", "plain", "escape", "html", "script", "newline", "nonascii", "long", "mixed", "srcdict"}
INVARIANTS RunAgrees Emit
PROPERTIES Terminates
CHECK_DEADLOCK FALSE
