SPECIFICATION Spec
CONSTANTS
  RelayClasses = {"empty", "blank", "plain", "escape", "html", "script", "newline", "nonascii", "long", "mixed", "binary", "control", "srcdict"}
INVARIANTS RunAgrees Emit
PROPERTIES Terminates
CHECK_DEADLOCK FALSE
