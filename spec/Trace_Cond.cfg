SPECIFICATION Spec
CONSTANTS
  MaxRestrictions = 0
  AudTokens = {"match"}
POSTCONDITION TraceAccepted
CHECK_DEADLOCK FALSE
