-------------------------------- MODULE Time --------------------------------
(***************************************************************************)
(* Expiry and validity-window decisions (C05): validate.go:73-99 and       *)
(* 223-240.  Instants are ticks (one tick = 500 ms, concretised in a       *)
(* random RFC 3339 rendering per bound: zone offsets, fractional digits),  *)
(* so every relative order of the clock and the bounds, equalities         *)
(* included, is enumerated.  A bound is [k, t] with k in tick / absent /   *)
(* malformed.  Validity is the half-open interval [NotBefore,NotOnOrAfter).*)
(***************************************************************************)
EXTENDS Naturals, Sequences, FiniteSets, TLC

CONSTANTS Ticks, MaxAssertions

\* "ancient" is a well-formed bound earlier than every clock (Go's zero time 0001-01-01T00:00:00Z, years before 1678
\* that do not fit into 64-bit nanoseconds, the Unix epoch); "farfuture" a well-formed bound later than every clock
\* (years after 2262 included)
TV == [k : {"tick"}, t : Ticks] \cup [k : {"absent", "malformed", "ancient", "farfuture"}, t : {0}]
IsInstant(v) == v.k \in {"tick", "ancient", "farfuture"}
Reached(now, v) == v.k = "ancient" \/ (v.k = "tick" /\ now >= v.t)       \* now is at or after v
Before(now, v)  == v.k = "farfuture" \/ (v.k = "tick" /\ now < v.t)      \* now is before v
Cfgs   == [now : Ticks]
Inputs == [nb : TV, cnoa : TV, scs : UNION { [1..n -> TV] : n \in 1..MaxAssertions }]

NoErr == [cls |-> "none", type |-> "none", name |-> "none"]
E(t, n) == [cls |-> "typed", type |-> t, name |-> n]

\* validate.go:223-240, per assertion
ScCheck(now, v) ==
   IF v.k = "absent" THEN E("ErrMissingElement", "notonorafter")
   ELSE IF v.k = "malformed" THEN E("ErrParsing", "notonorafter")
   ELSE IF Reached(now, v) THEN E("ErrInvalidValue", "notonorafter")
   ELSE NoErr
RECURSIVE FirstSc(_, _, _)
FirstSc(now, scs, i) == IF i > Len(scs) THEN NoErr
                        ELSE LET e == ScCheck(now, scs[i]) IN IF e.cls # "none" THEN e ELSE FirstSc(now, scs, i + 1)

\* validate.go:63-99 (VerifyAssertionConditions on the first assertion)
CondCheck(in) ==
   IF in.nb.k = "absent" THEN E("ErrMissingElement", "notbefore")
   ELSE IF in.nb.k = "malformed" THEN E("ErrParsing", "notbefore")
   ELSE IF in.cnoa.k = "absent" THEN E("ErrMissingElement", "notonorafter")
   ELSE IF in.cnoa.k = "malformed" THEN E("ErrParsing", "notonorafter")
   ELSE NoErr
Warn(now, in) == Before(now, in.nb) \/ Reached(now, in.cnoa)

ModelOut(cfg, in) ==
   LET e == FirstSc(cfg.now, in.scs, 1) IN
   IF e.cls # "none" THEN [res |-> "reject", err |-> e, info |-> [res |-> "reject", warn |-> FALSE]]
   ELSE LET c == CondCheck(in) IN
        IF c.cls # "none" THEN [res |-> "accept", err |-> NoErr, info |-> [res |-> "reject", warn |-> FALSE]]
        ELSE [res |-> "accept", err |-> NoErr, info |-> [res |-> "accept", warn |-> Warn(cfg.now, in)]]

---------------------------------------------------------------------------
Expired(cfg, in) == \E i \in DOMAIN in.scs : Reached(cfg.now, in.scs[i])
BadSc(in)        == \E i \in DOMAIN in.scs : ~IsInstant(in.scs[i])

\* o: [res, expired (rejected with the expiry error), info : [res, warn]]
C05_OK(cfg, in, o) ==
   /\ Expired(cfg, in) => o.res = "reject"
   /\ BadSc(in) => o.res = "reject"                       \* missing / unparsable is never "unbounded"
   /\ (o.res = "reject" /\ o.expired) => Expired(cfg, in) \* rejected as expired exactly when ...
   /\ (~Expired(cfg, in) /\ ~BadSc(in)) => o.res = "accept"
   /\ (o.res = "accept") =>
        /\ (~IsInstant(in.nb) \/ ~IsInstant(in.cnoa)) => o.info.res = "reject"
        /\ (IsInstant(in.nb) /\ IsInstant(in.cnoa)) =>
              (o.info.res = "accept" /\ (o.info.warn <=> (Before(cfg.now, in.nb) \/ Reached(cfg.now, in.cnoa))))
\* C03's clause "NotOnOrAfter has not been reached on the SP clock", for every assertion
C03_OK(cfg, in, o) == Expired(cfg, in) => o.res = "reject"
C09_OK(cfg, in, o) == o.res \in {"accept", "reject"} /\ o.info.res \in {"accept", "reject"}

Conforms(m, o) == /\ o.res = m.res /\ o.info.res = m.info.res
                  /\ (m.info.res = "accept" => o.info.warn = m.info.warn)
                  /\ (m.res = "reject" => (o.expired <=> m.err.type = "ErrInvalidValue"))
=============================================================================
