SPECIFICATION Spec
CONSTANTS
  Subjects = {"alice", "bob"}
  MaxReq = 3
  MaxIdp = 2
  MaxSteps = 7
INVARIANTS Authentic NoReplay PendingSane AnswersOnlyIdP Emit
PROPERTIES LogoutOnlyByIdP
CHECK_DEADLOCK FALSE
