SPECIFICATION Spec
CONSTANTS
  Subjects = {"alice", "bob"}
  MaxReq = 2
  MaxIdp = 1
  MinConsume = 3
  MaxSteps = 7
INVARIANTS Authentic NoReplay PendingSane AnswersOnlyIdP Emit
PROPERTIES LogoutOnlyByIdP
CHECK_DEADLOCK FALSE
