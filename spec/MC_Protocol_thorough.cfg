SPECIFICATION Spec
CONSTANTS
  Subjects = {"alice", "bob"}
  MaxReq = 3
  MaxSteps = 7
INVARIANTS Authentic NoReplay PendingSane Emit
PROPERTIES LogoutOnlyByIdP
CHECK_DEADLOCK FALSE
