---------------------------- MODULE MC_Forgery ----------------------------
EXTENDS Forgery, Json, IOUtils

VARIABLE w
vars == <<w>>

Init == w \in { W0(cfg, in) : cfg \in Cfgs, in \in Inputs }

\* one named action per block of ValidateEncodedResponse
Start           == w.pc = "Start"           /\ w' = DoStart(w)
SkipDecode      == w.pc = "SkipDecode"      /\ w' = DoSkipDecode(w)
RootVerifyA     == w.pc = "RootVerify"      /\ w' = DoRootVerify(w)
SignedDecrypt   == w.pc = "SignedDecrypt"   /\ w' = DoSignedDecrypt(w)
SignedDecode    == w.pc = "SignedDecode"    /\ w' = DoSignedDecode(w)
UnsignedDecrypt == w.pc = "UnsignedDecrypt" /\ w' = DoUnsignedDecrypt(w)
UnsignedLoop    == w.pc = "UnsignedLoop"    /\ w' = DoUnsignedLoop(w)
ValidateA       == w.pc = "Validate"        /\ w' = DoValidate(w)

Next == Start \/ SkipDecode \/ RootVerifyA \/ SignedDecrypt \/ SignedDecode
          \/ UnsignedDecrypt \/ UnsignedLoop \/ ValidateA

Spec == Init /\ [][Next]_vars /\ WF_vars(Next)

Done == w.pc = "done"

\* the model's own outcome seen as an observation (pre-decode and info mirror it)
AsObs(o) == [res |-> o.res, rflag |-> o.rflag, assertions |-> o.assertions,
             info |-> [res |-> o.res, iflag |-> o.rflag,
                       first |-> IF o.assertions = << >> THEN "none" ELSE o.assertions[1].c,
                       n |-> Len(o.assertions), aflags |-> [i \in DOMAIN o.assertions |-> o.assertions[i].flag]],
             pre |-> [ok |-> TRUE, agree |-> TRUE], marked_flagged |-> FALSE]

TypeOK == /\ w.pc \in {"Start", "SkipDecode", "RootVerify", "SignedDecrypt", "SignedDecode",
                        "UnsignedDecrypt", "UnsignedLoop", "Validate", "done"}
          /\ w.out.res \in {"pending", "accept", "reject"}
          /\ (w.pc = "done") = (w.out.res # "pending")

InvC01 == Done => C01_OK(w.cfg, w.in, AsObs(w.out))
InvC02 == Done => C02_OK(w.cfg, w.in, AsObs(w.out))
InvC04 == Done => C04_OK(w.cfg, w.in, AsObs(w.out))
InvC07 == Done => C07_OK(w.cfg, w.in, AsObs(w.out))
InvSum == Done => Summary_OK(AsObs(w.out))
\* in the unsigned-root path only verified elements reach profile validation
OnlyVerifiedReachValidate ==
   (w.pc = "Validate" /\ ~w.cfg.skip /\ ~w.out.rflag) => \A i \in DOMAIN w.list : w.list[i].flag
\* configuration and input never change while a message is processed
Frozen == [][w'.cfg = w.cfg /\ w'.in = w.in]_vars
\* the stepwise pipeline and the closed-form run agree
RunAgrees == Done => w.out = ModelOut(w.cfg, w.in)
Terminates == <>Done

Emit == Done =>
   Serialize(ToJson([family |-> "Forgery", cfg |-> w.cfg, input |-> w.in, model_out |-> w.out]) \o "\n",
             IOEnv.VERIF_OUT,
             [format |-> "TXT", charset |-> "UTF-8", openOptions |-> <<"WRITE", "CREATE", "APPEND">>]).exitValue = 0
=============================================================================
