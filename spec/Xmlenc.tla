------------------------------- MODULE Xmlenc -------------------------------
(***************************************************************************)
(* XML Encryption as the SP sees it (C07 decryption binding, C09 totality  *)
(* on hostile ciphertext, C11 round trip).  Mirrors                        *)
(* decode_response.go:106-201, types/encrypted_assertion.go and            *)
(* types/encrypted_key.go.  Three sub-spaces, each varying one concern:    *)
(*   sub = "bind"  recipient certificate, certificate-validation option,   *)
(*                 clock against the SP certificate window, certificate    *)
(*                 form                                                    *)
(*   sub = "shape" ciphertext / key-transport malformations reachable      *)
(*                 without any IdP key (unsigned Response)                 *)
(*   sub = "trip"  every advertised method x key transport x digest x      *)
(*                 placement x recipient x way of configuring the SP key   *)
(*   sub = "len"   DecryptBytes on plaintexts of every length residue      *)
(* Clock positions are half-second units; the SP certificate is valid in   *)
(* [4,12].                                                                 *)
(***************************************************************************)
EXTENDS Naturals, Sequences, FiniteSets, TLC

CONSTANTS DataAlgs, BindAlgs, Nows, Residues

GCM == {"aes128-gcm", "aes192-gcm", "aes256-gcm"}
CBC == {"aes128-cbc", "aes256-cbc"}
Advertised == GCM \cup CBC
KtDig == { <<"oaep", "none">>, <<"oaep", "sha1">>, <<"oaep", "sha256">>, <<"oaep", "sha512">>,
           <<"oaep11", "none">>, <<"oaep11", "sha1">>, <<"oaep11", "sha256">>, <<"oaep11", "sha512">>,
           <<"pkcs1", "none">> }
KeyCfgs == {"fieldTLS", "fieldMem", "setter", "bothSame", "bothDiff"}
\* binding sub-space only: "rotating" is a key store that serves an expired pair on the first fetch and a valid pair
\* afterwards (the message is encrypted to the expired certificate); second = "staleKey" appends a second
\* EncryptedAssertion whose detached EncryptedKey names a foreign recipient while its payload is encrypted under the
\* first one's session key
Shapes == {"ok", "empty", "lt_nonce", "eq_nonce", "lt_tag", "iv_only", "not_multiple", "pad_zero", "pad_big", "all_zero", "pad_then_zeros", "pad_block_plus",
           "key_short", "key_garbage", "key_missing", "cipher_badb64",
           \* honest encryption of a plaintext that is not an element: comment only, XML declaration only, white space, text
           "pt_comment", "pt_decl", "pt_space", "pt_text"}
Honest == {"ok", "pt_comment", "pt_decl", "pt_space", "pt_text"}     \* the ciphertext itself is well formed
ShapeAlgs == Advertised \cup {"tripledes-cbc", "unknown", "empty"}
ShapeKts  == {"oaep", "oaep11", "pkcs1", "unknown", "empty"}

Base == [sub |-> "bind", alg |-> "aes128-gcm", kt |-> "oaep", dig |-> "none", detached |-> FALSE, recipient |-> "absent",
         keycfg |-> "fieldTLS", validate |-> FALSE, certform |-> "valid", shape |-> "ok", residue |-> 0, zeros |-> FALSE,
         rootsigned |-> FALSE, alg2 |-> "none", kt2 |-> "none", dig2 |-> "none", detached2 |-> FALSE]

Bind  == { [Base EXCEPT !.sub = "bind", !.alg = a, !.recipient = r, !.validate = v, !.certform = c, !.rootsigned = rs, !.detached = d] :
             a \in BindAlgs, r \in {"absent", "match", "mismatch", "samekey"}, v \in BOOLEAN, c \in {"valid", "empty", "garbage"},
             rs \in BOOLEAN, d \in BOOLEAN } \cup
         { [Base EXCEPT !.sub = "bind", !.alg = a, !.keycfg = "rotating", !.validate = v, !.rootsigned = rs] : a \in BindAlgs, v \in BOOLEAN, rs \in BOOLEAN } \cup
         { [Base EXCEPT !.sub = "bind", !.alg = a, !.shape = "staleKey", !.recipient = r] : a \in BindAlgs, r \in {"absent", "match"} } \cup
         \* key rotation at run time: the deprecated field still holds the OLD pair in a TLS store, SetSPKeyStore gave the
         \* current one.  "oldkey": the message is encrypted to the old key and names the old certificate
         { [Base EXCEPT !.sub = "bind", !.alg = a, !.keycfg = "bothDiff", !.recipient = r, !.validate = v] :
             a \in BindAlgs, r \in {"absent", "match", "oldkey"}, v \in BOOLEAN }
PadShapes == {"pad_zero", "pad_big", "all_zero", "pad_then_zeros", "pad_block_plus"}
Shape == { x \in { [Base EXCEPT !.sub = "shape", !.alg = a, !.kt = k, !.shape = s] : a \in ShapeAlgs, k \in ShapeKts, s \in Shapes } :
             (x.shape \in PadShapes => x.alg \notin GCM) }
Trip  == { [Base EXCEPT !.sub = "trip", !.alg = a, !.kt = kd[1], !.dig = kd[2], !.detached = d, !.recipient = r, !.keycfg = kc] :
             a \in DataAlgs, kd \in KtDig, d \in BOOLEAN, r \in {"absent", "match"}, kc \in KeyCfgs }
Lens  == { [Base EXCEPT !.sub = "len", !.alg = a, !.kt = k, !.residue = n, !.zeros = z] :
             a \in DataAlgs, k \in {"oaep", "pkcs1"}, n \in Residues, z \in BOOLEAN }

\* multi: one Response carrying two honestly encrypted, IdP-signed assertions (GA1 then GA2) whose EncryptedKey forms are
\* chosen independently (alg2, kt2, dig2, detached2 describe the second): nothing of the first may influence the second
KtDigMulti == { <<"oaep", "none">>, <<"oaep", "sha256">>, <<"pkcs1", "none">> }
Multi == { [Base EXCEPT !.sub = "multi", !.alg = a, !.kt = kd[1], !.dig = kd[2], !.detached = d,
                        !.alg2 = a2, !.kt2 = kd2[1], !.dig2 = kd2[2], !.detached2 = d2] :
             a \in BindAlgs, a2 \in BindAlgs, kd \in KtDigMulti, kd2 \in KtDigMulti, d \in BOOLEAN, d2 \in BOOLEAN }

Inputs == Bind \cup Shape \cup Trip \cup Lens \cup Multi
Cfgs   == [now : Nows]
CaseOK(cfg, in) == (in.sub # "bind") => cfg.now = 8      \* the clock only matters for the binding sub-space

\* (position 99 stands for a clock that reads Go's zero time, with an SP certificate valid around the machine's wall clock:
\* outside the window like any other instant before NotBefore)
InWindow(now) == 4 <= now /\ now <= 12

\* getDecryptCert (decode_response.go:106-148)
\* (the rotating store's first pair is expired at every clock position used here)
CertRefused(cfg, in) == in.validate /\ (in.certform # "valid" \/ ~InWindow(cfg.now) \/ in.keycfg = "rotating")
\* DecryptSymmetricKey recipient comparison (types/encrypted_key.go:109-121): the shown
\* certificate must equal the SP's configured certificate octets
\* "samekey": the certificate shown is a DIFFERENT certificate issued over the SP's own public key (a re-issue,
\* an expired predecessor): not the SP's configured certificate, hence refused like any other
RecipientRefused(in) == in.recipient \in {"mismatch", "samekey", "oldkey"} \/ (in.recipient = "match" /\ in.certform # "valid") \/ in.shape = "staleKey"

DecryptOK(cfg, in) ==
   CASE in.sub = "bind"  -> ~CertRefused(cfg, in) /\ ~RecipientRefused(in)
     [] in.sub = "shape" -> in.shape \in Honest /\ in.alg \in Advertised /\ in.kt \in {"oaep", "oaep11", "pkcs1"}
     [] OTHER            -> TRUE

\* the plaintext is GA1 carrying the IdP's own signature, except in the shape
\* sub-space where the sender has no IdP key: unsigned forged content
ModelOut(cfg, in) ==
   IF in.sub = "len" THEN [res |-> "na", dec |-> "ok", twin |-> TRUE]
   ELSE IF in.sub = "shape" THEN [res |-> "reject", dec |-> IF DecryptOK(cfg, in) THEN "ok" ELSE "error", twin |-> TRUE]
   ELSE IF DecryptOK(cfg, in) THEN [res |-> "accept", dec |-> IF in.sub = "bind" THEN "na" ELSE "ok", twin |-> TRUE]
   ELSE [res |-> "reject", dec |-> "na", twin |-> TRUE]

---------------------------------------------------------------------------
\* o: [res (validation of the encrypted Response: accept/reject/panic/...),
\*     dec (direct DecryptBytes call: ok = exact plaintext back / wrong / error / panic / na),
\*     twin (validation of the encrypted Response agrees with its plaintext twin in outcome and data)]
C07_OK(cfg, in, o) ==
   (in.sub = "bind") =>
      /\ (in.recipient \in {"mismatch", "samekey", "oldkey"} \/ in.shape = "staleKey") => o.res = "reject"
      /\ (in.validate /\ (in.certform # "valid" \/ ~InWindow(cfg.now) \/ in.keycfg = "rotating")) => o.res = "reject"

C09_OK(cfg, in, o) == o.res \in {"accept", "reject", "na"} /\ o.dec \in {"ok", "wrong", "error", "na"}

C11_OK(cfg, in, o) ==
   /\ (in.sub \in {"trip", "multi"}) => (o.dec = "ok" /\ o.res = "accept" /\ o.twin)
   /\ (in.sub = "len")  => o.dec = "ok"
   /\ (in.sub = "bind" /\ DecryptOK(cfg, in) /\ in.certform = "valid" /\ in.keycfg # "rotating") => (o.res = "accept" /\ o.twin)

\* C01/C07: nothing reachable without an IdP key is ever accepted
C01_OK(cfg, in, o) == (in.sub = "shape") => o.res # "accept"

Conforms(m, o) == /\ (m.res # "na" => o.res = m.res)
                  /\ (m.dec # "na" => (m.dec = "ok") = (o.dec = "ok"))
=============================================================================
