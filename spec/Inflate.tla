------------------------------ MODULE Inflate ------------------------------
(***************************************************************************)
(* Bounded, transparent decompression (C12): maybeDeflate / parseResponse  *)
(* (decode_response.go:425-479) as used by the six inbound entry points.   *)
(* "validateEncInner" is ValidateEncodedResponse on an unsigned Response    *)
(* whose EncryptedAssertion plaintext is itself presented raw or DEFLATEd  *)
(* (decode_response.go:181 runs the decrypted octets through the same      *)
(* bounded inflate with the configured limit).                             *)
(* limit is the configured MaximumDecompressedBodySize: "0" (unset, 5 MiB),*)
(* "1", "2k", "64k", "maxint" (the largest int64).  size is the            *)
(* decompressed size of the presented document relative to the effective   *)
(* limit: natural (a few KiB, no padding), lim-1, lim, lim+1, x100, x1000, *)
(* lim_min (a bare root element padded inside to exactly the limit).       *)
(* pres is how it is presented: raw, DEFLATE at levels 1 / 6 / 9, stored   *)
(* blocks only, Huffman only, or ("lead") one valid multi-block stream per *)
(* achievable first octet.  Every document of the family carries several   *)
(* kilobytes of three-octet characters.                                    *)
(***************************************************************************)
EXTENDS Naturals, Sequences, FiniteSets, TLC

CONSTANTS Limits, Sizes, Entries

Predecoders == {"predecodeResp", "predecodeLogout"}
\* stored / huffman: streams of stored blocks only / Huffman-only coding; lead: the natural-size document in one valid
\* DEFLATE stream per achievable first octet (multi-block streams cut by a flush, stored blocks with free padding bits)
Pres == {"raw", "deflate1", "deflate6", "deflate9", "stored", "huffman", "lead"}
Cfgs == [limit : Limits]
Inputs == [entry : Entries, pres : Pres, size : Sizes, good : BOOLEAN]

\* effective limit in KiB ("1" is one byte: below every document)
\* "maxint" (the largest int64) means "no practical limit": nothing generated here exceeds it
EffKiB(cfg, in) == IF in.entry \in Predecoders \/ cfg.limit = "0" THEN 5120
                   ELSE CASE cfg.limit = "1" -> 0 [] cfg.limit = "2k" -> 2 [] cfg.limit = "maxint" -> 1000000000 [] OTHER -> 64
\* documents are 3..12 KiB before padding
Feasible(cfg, in) == (in.size \in {"lim-1", "lim", "lim+1"} => (EffKiB(cfg, in) >= 64 /\ EffKiB(cfg, in) <= 5120))
                     /\ (in.size \in {"x100", "x1000"} => EffKiB(cfg, in) <= 5120)
                     /\ (in.size = "x1000" => EffKiB(cfg, in) < 5120)
                     /\ (in.pres = "raw" => in.size \in {"natural", "lim-1", "lim", "lim+1", "lim_min"})
                     /\ (in.pres = "lead" => in.size = "natural")
                     \* the unverified decoders are package functions: no provider, hence no configured limit, reaches them
                     /\ (in.entry \in Predecoders => cfg.limit = "64k")
                     \* "lim_min": exactly the limit, but the document is a bare root element (which the unverified decoders
                     \* accept) and everything else padding, so that the stream reaches DEFLATE's maximum ratio (about
                     \* 1030:1) on a message that is within the limit
                     /\ (in.size = "lim_min" => (in.entry \in Predecoders /\ in.pres \in {"raw", "deflate6", "deflate9"} /\ cfg.limit = "64k"))
                     /\ (in.pres \in {"stored", "huffman"} => in.size \in {"natural", "lim", "lim+1"})
Over(cfg, in) == CASE in.size = "natural" -> EffKiB(cfg, in) < 3
                   [] in.size \in {"lim-1", "lim", "lim_min"} -> FALSE
                   [] OTHER -> TRUE

ModelOut(cfg, in) ==
   IF in.pres # "raw" /\ Over(cfg, in) THEN [res |-> "reject", limited |-> TRUE]
   ELSE [res |-> IF in.good THEN "accept" ELSE "reject", limited |-> FALSE]

---------------------------------------------------------------------------
\* o: [res, same (outcome, data and error class equal to the raw twin's), typed (rejected with
\*     the document's own typed error), alloc_kib (bytes allocated during the call, KiB), input_kib (size of the encoded input)]
C12_OK(cfg, in, o) ==
   \* "about the limit of decompressed data": the allowance grows with the limit and with the size of the
   \* presented (still compressed) input, which every parser necessarily copies a few times -- not with the expansion
   \* (an encrypted inner message passes through the XML parser, base64, the cipher and the parser again: a 9 MB input was
   \* measured at 24 times its size on the unchanged tree, hence the factor 32)
   /\ (in.pres # "raw" /\ Over(cfg, in)) => (o.res = "reject" /\ o.alloc_kib <= 16 * EffKiB(cfg, in) + 8192 + 32 * o.input_kib)
   /\ (in.pres # "raw" /\ ~Over(cfg, in)) => o.same
   /\ (in.pres = "raw" \/ ~Over(cfg, in)) => (o.res = (IF in.good THEN "accept" ELSE "reject"))
C09_OK(cfg, in, o) == o.res \in {"accept", "reject"}
\* C08 (fragment): a genuine message within the limit is accepted, compressed or not
C08_OK(cfg, in, o) == (in.good /\ (in.pres = "raw" \/ ~Over(cfg, in))) => o.res = "accept"
Conforms(m, o) == o.res = m.res
=============================================================================
