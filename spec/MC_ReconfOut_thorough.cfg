SPECIFICATION Spec
CONSTANTS
  MaxLen = 5
INVARIANTS InvCur RunAgrees Emit
PROPERTIES Terminates
CHECK_DEADLOCK FALSE
