-------------------------------- MODULE IdGen --------------------------------
(***************************************************************************)
(* Message identifiers (C18): uuid/uuid.go and the three builders.         *)
(* A draw is 16 octets read from the operating system's random source; the *)
(* identifier is "_" followed by the canonical 8-4-4-4-12 lowercase hex    *)
(* form of the draw with the version nibble forced to 4 and the variant    *)
(* bits forced to 10.  Identifiers are sequences of character codes.       *)
(***************************************************************************)
EXTENDS Naturals, Sequences, FiniteSets, Bitwise, TLC

\* uuid.go:33-34
Force(d) == [i \in 1..16 |-> IF i = 7 THEN (d[i] | 64) & 79          \* u[6] = (u[6] | 0x40) & 0x4f
                             ELSE IF i = 9 THEN (d[i] | 128) & 191   \* u[8] = (u[8] | 0x80) & 0xbf
                             ELSE d[i]]
HexDigit(n) == IF n < 10 THEN 48 + n ELSE 87 + n        \* '0'..'9', 'a'..'f'
HexByte(b)  == << HexDigit(b \div 16), HexDigit(b % 16) >>
RECURSIVE HexOf(_, _, _)
HexOf(u, i, j) == IF i > j THEN << >> ELSE HexByte(u[i]) \o HexOf(u, i + 1, j)
Dash == << 45 >>
Canonical(u) == HexOf(u, 1, 4) \o Dash \o HexOf(u, 5, 6) \o Dash \o HexOf(u, 7, 8) \o Dash \o HexOf(u, 9, 10) \o Dash \o HexOf(u, 11, 16)
IdOf(d) == << 95 >> \o Canonical(Force(d))               \* 95 = '_'

IsByte(b) == b \in 0..255
\* free bits are exactly the drawn bits
FreeBitsKept(d) == LET u == Force(d) IN
   /\ \A i \in (1..16) \ {7, 9} : u[i] = d[i]
   /\ u[7] & 15 = d[7] & 15
   /\ u[9] & 63 = d[9] & 63
Version4(u)  == u[7] \div 16 = 4
Variant10(u) == u[9] \div 64 = 2

\* a legal xs:ID starts with a letter or underscore; lowercase hex and dashes follow
IsHexOrDash(c) == (c >= 48 /\ c <= 57) \/ (c >= 97 /\ c <= 102) \/ c = 45
LegalId(id) == /\ Len(id) = 37 /\ id[1] = 95
               /\ \A i \in 2..37 : IsHexOrDash(id[i])
               /\ id[10] = 45 /\ id[15] = 45 /\ id[20] = 45 /\ id[25] = 45
               /\ id[16] = 52                                 \* version nibble '4'
               /\ id[21] \in {56, 57, 97, 98}                 \* variant: 8, 9, a, b

RECURSIVE Less(_, _, _)
Less(a, b, i) == IF i > Len(a) \/ i > Len(b) THEN Len(a) < Len(b)
                 ELSE IF a[i] < b[i] THEN TRUE ELSE IF a[i] > b[i] THEN FALSE ELSE Less(a, b, i + 1)

\* one trace line: an identifier issued by the real code, the 16 octets it drew, and the
\* identifier that precedes it in the sorted history ("" for the first)
C18_OK(e) ==
   /\ Len(e.draw) = 16 /\ \A i \in 1..16 : IsByte(e.draw[i])      \* the octets were read from crypto/rand.Reader in one read
   /\ e.id = IdOf(e.draw)                                         \* nothing but those octets (and the forced bits) is in the ID
   /\ LegalId(e.id)
   /\ e.draws_matching = 1                                        \* no draw is used for two identifiers
   /\ (e.prev # << >> => Less(e.prev, e.id, 1))                   \* strictly increasing sorted history: all identifiers distinct
=============================================================================
