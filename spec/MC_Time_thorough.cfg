SPECIFICATION Spec
CONSTANTS
  Ticks = {0, 1, 2, 3, 4}
  MaxAssertions = 2
INVARIANTS InvC05 RunAgrees Emit
PROPERTIES Frozen Terminates
CHECK_DEADLOCK FALSE
