SPECIFICATION Spec
CONSTANTS
  DataAlgs = {"aes128-gcm", "aes192-gcm", "aes256-gcm", "aes128-cbc", "aes256-cbc"}
  BindAlgs = {"aes128-gcm", "aes192-gcm", "aes256-gcm", "aes128-cbc", "aes256-cbc"}
  Nows = {0,3,4,5,8,11,12,13,20, 99}
  Residues = {0,1,2,3,4,5,6,7,8,9,10,11,12,13,14,15}
INVARIANTS InvC07 InvC11 InvC01 RunAgrees Emit
PROPERTIES Frozen Terminates
CHECK_DEADLOCK FALSE
