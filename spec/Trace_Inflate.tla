----------------------------- MODULE Trace_Inflate -----------------------------
EXTENDS Inflate, Json, IOUtils
VARIABLE l
Trace == ndJsonDeserialize(IOEnv.VERIF_TRACE)
FailSet(t) ==
   (IF C12_OK(t.cfg, t.input, t.obs) THEN {} ELSE {"C12"}) \cup
   (IF C09_OK(t.cfg, t.input, t.obs) THEN {} ELSE {"C09"}) \cup
   (IF C08_OK(t.cfg, t.input, t.obs) THEN {} ELSE {"C08"})
Verdict(t) == [case |-> t.case, fails |-> FailSet(t), drift |-> ~Conforms(ModelOut(t.cfg, t.input), t.obs)]
Init == l = 1
Next == /\ l <= Len(Trace)
        /\ Serialize(ToJson(Verdict(Trace[l])) \o "\n", IOEnv.VERIF_VERDICT,
                     [format |-> "TXT", charset |-> "UTF-8", openOptions |-> <<"WRITE", "CREATE", "APPEND">>]).exitValue = 0
        /\ l' = l + 1
Spec == Init /\ [][Next]_l
TraceAccepted == TLCGet("stats").diameter - 1 = Len(Trace)
=============================================================================
