SPECIFICATION Spec
CONSTANTS
  Nows = {3, 4, 7, 8, 12, 13, 16, 17}
  Pads = {0, 9}
  Kinds = {"ssoRoot", "ssoAssert", "logoutReq", "logoutResp"}
INVARIANTS InvC02 InvC04 InvC10 Emit
PROPERTIES Frozen Terminates
CHECK_DEADLOCK FALSE
