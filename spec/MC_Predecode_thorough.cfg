SPECIFICATION Spec
INVARIANTS InvC20 OnlySigned Emit
PROPERTIES Terminates
CHECK_DEADLOCK FALSE
