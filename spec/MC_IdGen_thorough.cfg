SPECIFICATION Spec
CONSTANTS
  Step = 1
INVARIANTS InvBits InvLegal InvInjective
PROPERTIES Terminates
CHECK_DEADLOCK FALSE
