------------------------------ MODULE MC_Protocol ------------------------------
EXTENDS Protocol, Json, IOUtils
CONSTANT MinConsume
Complete == Len(hist) = MaxSteps
\* only behaviours in which the service provider consumes at least MinConsume messages are handed to the driver
\* (the others exercise the harness more than the library); every behaviour is still checked against the invariants
Consumes == Cardinality({ i \in 1..Len(hist) : hist[i][1] \in {"SPConsume", "SPConsumeLogout", "SPConsumeLogoutRequest"} })
Emit == (Complete /\ Consumes >= MinConsume) =>
   Serialize(ToJson([family |-> "Protocol", cfg |-> [maxreq |-> MaxReq], input |-> [hist |-> hist],
                     model_out |-> [pending |-> pending, sessions |-> sessions, lpending |-> lpending, answered |-> { m.irt : m \in { x \in net : x.t = "SPLogoutResponse" } }]]) \o "\n", IOEnv.VERIF_OUT,
             [format |-> "TXT", charset |-> "UTF-8", openOptions |-> <<"WRITE", "CREATE", "APPEND">>]).exitValue = 0
=============================================================================
