------------------------------ MODULE MC_Protocol ------------------------------
EXTENDS Protocol, Json, IOUtils
Complete == Len(hist) = MaxSteps
Emit == Complete =>
   Serialize(ToJson([family |-> "Protocol", cfg |-> [maxreq |-> MaxReq], input |-> [hist |-> hist],
                     model_out |-> [pending |-> pending, sessions |-> sessions, lpending |-> lpending, answered |-> { m.irt : m \in { x \in net : x.t = "SPLogoutResponse" } }]]) \o "\n", IOEnv.VERIF_OUT,
             [format |-> "TXT", charset |-> "UTF-8", openOptions |-> <<"WRITE", "CREATE", "APPEND">>]).exitValue = 0
=============================================================================
