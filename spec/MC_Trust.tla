------------------------------ MODULE MC_Trust ------------------------------
EXTENDS Trust, Json, IOUtils
VARIABLES pc, cfg, in, out
vars == <<pc, cfg, in, out>>
None == [res |-> "pending", flag |-> FALSE, n |-> 0]
Init == /\ pc = "Verify" /\ out = None
        /\ cfg \in Cfgs /\ in \in { i \in Inputs : InputOK(i) }
\* Validate(el): certificate, value, digest (one step: it is one library call)
VerifyA == /\ pc = "Verify" /\ pc' = "Decide" /\ UNCHANGED <<cfg, in, out>>
\* the caller's reaction to the three outcomes (decode_response.go:294-303, 514-526; decode_logout_request.go:45-57)
Decide == /\ pc = "Decide" /\ pc' = "done" /\ out' = ModelOut(cfg, in) /\ UNCHANGED <<cfg, in>>
Next == VerifyA \/ Decide
Spec == Init /\ [][Next]_vars /\ WF_vars(Next)
Done == pc = "done"
InvC02 == Done => C02_OK(cfg, in, out)
InvC04 == Done => C04_OK(cfg, in, out)
InvC10 == Done => C10_OK(cfg, in, out)
Frozen == [][cfg' = cfg /\ in' = in]_vars
Terminates == <>Done
Emit == Done =>
   Serialize(ToJson([family |-> "Trust", cfg |-> cfg, input |-> in, model_out |-> out]) \o "\n", IOEnv.VERIF_OUT,
             [format |-> "TXT", charset |-> "UTF-8", openOptions |-> <<"WRITE", "CREATE", "APPEND">>]).exitValue = 0
=============================================================================
