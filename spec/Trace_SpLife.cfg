SPECIFICATION Spec
CONSTANTS
  Ops = {"validate"}
  MaxLen = 1
POSTCONDITION TraceAccepted
CHECK_DEADLOCK FALSE
