---------------------------- MODULE Trace_Protocol ----------------------------
(***************************************************************************)
(* One trace line is one behaviour of Protocol.tla executed with the real  *)
(* library as the service provider, the simulated IdP and the attacker.    *)
(* Every event must be the corresponding action of the specification, and  *)
(* the caller-visible state the driver derived from REAL values (request   *)
(* IDs parsed out of the real AuthnRequest / LogoutRequest, InResponseTo,  *)
(* NameID and SessionIndex returned by validation) must equal the          *)
(* specification's state after that action.                                *)
(***************************************************************************)
EXTENDS Protocol, Json, IOUtils

VARIABLES l, k, bad
Trace == ndJsonDeserialize(IOEnv.VERIF_TRACE)
Ev(i) == Trace[i].obs.events
St(i) == Trace[i].obs.states
AsSet(seq) == { seq[j] : j \in DOMAIN seq }

Do(e) == \/ e[1] = "SPStart" /\ SPStart
         \/ e[1] = "IdPRespond" /\ \E m \in net : m.t = "AuthnRequest" /\ m.id = e[2] /\ IdPRespond(m, e[3])
         \/ e[1] = "AttForge" /\ AttForge(e[2], e[3])
         \/ e[1] = "SPConsume" /\ \E m \in net : m = Resp(e[2], e[3], e[4]) /\ SPConsume(m)
         \/ e[1] = "SPLogout" /\ \E s \in sessions : s.subj = e[3] /\ SPLogout(s)
         \/ e[1] = "IdPLogoutRespond" /\ \E m \in net : m.t = "LogoutRequest" /\ m.id = e[2] /\ IdPLogoutRespond(m)
         \/ e[1] = "AttForgeLogout" /\ AttForgeLogout(e[2])
         \/ e[1] = "SPConsumeLogout" /\ \E m \in net : m = LogoutResp(e[2], e[3]) /\ SPConsumeLogout(m)
         \/ e[1] = "IdPLogoutRequest" /\ IdPLogoutRequest(e[3])
         \/ e[1] = "AttForgeLogoutRequest" /\ AttForgeLogoutRequest(e[3], e[4])
         \/ e[1] = "SPConsumeLogoutRequest" /\ \E m \in net : m = IdpLogoutReq(e[2], e[3], e[4]) /\ SPConsumeLogoutRequest(m)

\* the state derived from real values after event k of line i
ObsPending(i, j)  == AsSet(St(i)[j].pending)
ObsSessions(i, j) == { [subj |-> x[1], via |-> x[2]] : x \in AsSet(St(i)[j].sessions) }
ObsLPending(i, j) == { [id |-> x[1], subj |-> x[2]] : x \in AsSet(St(i)[j].lpending) }
ObsAnswered(i, j) == AsSet(St(i)[j].answered)      \* IdP LogoutRequests the real SP has answered so far
Answered(n)       == { m.irt : m \in { x \in n : x.t = "SPLogoutResponse" } }

Reset == /\ nreq' = 0 /\ pending' = {} /\ sessions' = {} /\ lpending' = {} /\ net' = {} /\ nidp' = 0 /\ hist' = << >>

TInit == Init /\ l = 1 /\ k = 1 /\ bad = FALSE
Step == /\ l <= Len(Trace) /\ k <= Len(Ev(l)) /\ ~bad
        /\ Do(Ev(l)[k])
        /\ pending' = ObsPending(l, k) /\ sessions' = ObsSessions(l, k) /\ lpending' = ObsLPending(l, k)
        /\ Answered(net') = ObsAnswered(l, k)
        /\ k' = k + 1 /\ UNCHANGED <<l, bad>>
Mismatch == /\ l <= Len(Trace) /\ k <= Len(Ev(l)) /\ ~bad
            /\ ~ENABLED (Do(Ev(l)[k]) /\ pending' = ObsPending(l, k) /\ sessions' = ObsSessions(l, k) /\ lpending' = ObsLPending(l, k)
                         /\ Answered(net') = ObsAnswered(l, k))
            /\ bad' = TRUE /\ UNCHANGED <<l, k, vars>>
\* protocol-level properties on what the real components did
ObsOK(o) == /\ o.idp_side_ok          \* every message the SP produced was parsed, verified and understood by the IdP
            /\ o.values_roundtrip     \* IDs, NameID, SessionIndex came back exactly
EndLine == /\ l <= Len(Trace) /\ (k > Len(Ev(l)) \/ bad)
           /\ Serialize(ToJson([case |-> Trace[l].case,
                                fails |-> (IF bad THEN {"P_STATE"} ELSE {}) \cup (IF ObsOK(Trace[l].obs) THEN {} ELSE {"P_SPMSG"}),
                                drift |-> FALSE]) \o "\n", IOEnv.VERIF_VERDICT,
                        [format |-> "TXT", charset |-> "UTF-8", openOptions |-> <<"WRITE", "CREATE", "APPEND">>]).exitValue = 0
           /\ Reset /\ l' = l + 1 /\ k' = 1 /\ bad' = FALSE
TNext == Step \/ Mismatch \/ EndLine
TSpec == TInit /\ [][TNext]_<<vars, l, k, bad>>
=============================================================================
