--------------------------- MODULE Trace_Outbound ---------------------------
EXTENDS Outbound, Json, IOUtils
VARIABLE l
Trace == ndJsonDeserialize(IOEnv.VERIF_TRACE)
FailSet(t) ==
   (IF C13_OK(t.cfg, t.input, t.obs) THEN {} ELSE {"C13"}) \cup
   (IF C15_OK(t.cfg, t.input, t.obs) THEN {} ELSE {"C15"}) \cup
   (IF C19_OK(t.cfg, t.input, t.obs) THEN {} ELSE {"C19"}) \cup
   (IF C11_OK(t.cfg, t.input, t.obs) THEN {} ELSE {"C11"})
Verdict(t) == [case |-> t.case, fails |-> FailSet(t), drift |-> ~Conforms(t.input, ModelOut(t.cfg, t.input), t.obs)]
Init == l = 1
Next == /\ l <= Len(Trace)
        /\ Serialize(ToJson(Verdict(Trace[l])) \o "\n", IOEnv.VERIF_VERDICT,
                     [format |-> "TXT", charset |-> "UTF-8", openOptions |-> <<"WRITE", "CREATE", "APPEND">>]).exitValue = 0
        /\ l' = l + 1
Spec == Init /\ [][Next]_l
TraceAccepted == TLCGet("stats").diameter - 1 = Len(Trace)
=============================================================================
