-------------------------------- MODULE Reconf --------------------------------
(***************************************************************************)
(* Validation follows the CURRENT configuration (C01, C02, C07, C10 on a   *)
(* long-lived service provider whose certificate store and clock are       *)
(* re-assigned between calls: key roll-over, revocation, time passing).    *)
(* Nothing derived from the configuration may be cached across calls.      *)
(*                                                                         *)
(* Ops: <<"store", s>> with s in A / B / AB / NA (the IdP certificates      *)
(* trusted from now on; N is the IdP's NEXT certificate, listed first and  *)
(* valid only from clock 12 on: the store as it looks during a roll-over); *)
(* <<"clock", t>> (half-second units; the SP encryption      *)
(* certificate is valid in [4,12] and its validation is switched on);      *)
(* <<"val", kind, signer>>: validate a message of the kind signed by A / B.*)
(***************************************************************************)
EXTENDS Naturals, Sequences, FiniteSets, TLC

CONSTANTS MaxLen

Stores == {"A", "B", "AB", "NA"}
Signers == {"A", "B", "N"}
Clocks == {8, 14}
Kinds  == {"sso", "ssoenc", "logoutReq", "logoutResp"}
Ops == { <<"store", s>> : s \in Stores } \cup { <<"clock", t>> : t \in Clocks } \cup { <<"val", k, s>> : k \in Kinds, s \in Signers }
Seqs(S, n) == UNION { [1..k -> S] : k \in 1..n }
\* histories that end in a validation (the last call is what is judged hardest) and contain a reconfiguration
Histories == { h \in Seqs(Ops, MaxLen) : h[Len(h)][1] = "val" }

Init0 == [store |-> "NA", now |-> 8]
Apply(st, op) == CASE op[1] = "store" -> [st EXCEPT !.store = op[2]]
                   [] op[1] = "clock" -> [st EXCEPT !.now = op[2]]
                   [] OTHER -> st
RECURSIVE StateBefore(_, _)
StateBefore(h, i) == IF i = 1 THEN Init0 ELSE Apply(StateBefore(h, i - 1), h[i - 1])

InStore(st, signer) == \/ signer = "A" /\ st.store \in {"A", "AB", "NA"}
                       \/ signer = "B" /\ st.store \in {"B", "AB"}
                       \/ signer = "N" /\ st.store = "NA"
CertValid(signer, now) == signer # "N" \/ now >= 12
Trusted(st, signer) == InStore(st, signer) /\ CertValid(signer, st.now)
EncOK(st) == 4 <= st.now /\ st.now <= 12
Expected(st, op) == IF op[1] # "val" THEN "na"
                    ELSE IF Trusted(st, op[3]) /\ (op[2] = "ssoenc" => EncOK(st)) THEN "accept" ELSE "reject"
ModelOut(h) == [i \in 1..Len(h) |-> Expected(StateBefore(h, i), h[i])]

\* o.steps[i]: "accept" | "reject" | "na" (configuration op) | "panic" ...
\* every validation is judged against the configuration in force when it is made
Cur_OK(h, o) ==
   /\ Len(o.steps) = Len(h)
   /\ \A i \in DOMAIN h : (h[i][1] = "val") =>
         LET st == StateBefore(h, i) IN
         /\ (o.steps[i] = "accept") => Trusted(st, h[i][3])                              \* C01 / C02 / C10: configured store
         /\ (h[i][2] = "ssoenc" /\ ~EncOK(st)) => o.steps[i] = "reject"                  \* C07: SP certificate window at the SP clock
         /\ (Trusted(st, h[i][3]) /\ (h[i][2] = "ssoenc" => EncOK(st))) => o.steps[i] = "accept"   \* roll-over: the new member is honoured
         /\ o.steps[i] \in {"accept", "reject"}
=============================================================================
