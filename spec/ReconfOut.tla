------------------------------- MODULE ReconfOut -------------------------------
(***************************************************************************)
(* Builders and metadata follow the CURRENT configuration (C15, C19 on a   *)
(* long-lived service provider that is re-configured between calls).       *)
(* Nothing derived from the configuration may be memoised across calls     *)
(* (the lazily created signing context is deliberately left out: only      *)
(* unsigned builders and metadata are used here).                          *)
(* Ops: <<"set", field, value>> and <<"build", what>>.                     *)
(***************************************************************************)
EXTENDS Naturals, Sequences, FiniteSets, TLC

CONSTANTS MaxLen

Values == [rac |-> {"nil", "x", "y"}, acs |-> {"u1", "u2"}, fmt |-> {"f1", "f2"}, enckey |-> {"k1", "k2"}, clock |-> {"t1", "t2"}]
Fields == DOMAIN Values
Builds == {"authn", "logoutReq", "metadata"}
Ops == { <<"set", f, v>> : f \in Fields, v \in UNION { Values[g] : g \in Fields } } \cup { <<"build", b, "-">> : b \in Builds }
OpOK(op) == op[1] = "build" \/ op[3] \in Values[op[2]]
Seqs(S, n) == UNION { [1..k -> S] : k \in 1..n }
Histories == { h \in Seqs({ op \in Ops : OpOK(op) }, MaxLen) : h[Len(h)][1] = "build" }

Init0 == [rac |-> "nil", acs |-> "u1", fmt |-> "f1", enckey |-> "k1", clock |-> "t1"]
Apply(st, op) == IF op[1] = "set" THEN [st EXCEPT ![op[2]] = op[3]] ELSE st
RECURSIVE StateBefore(_, _)
StateBefore(h, i) == IF i = 1 THEN Init0 ELSE Apply(StateBefore(h, i - 1), h[i - 1])

\* what each product shows of the configuration
Shows(b) == CASE b = "authn" -> {"rac", "acs", "fmt", "clock"}
              [] b = "logoutReq" -> {"fmt", "clock"}
              [] OTHER -> {"acs", "enckey", "clock"}
\* o.steps[i]: for a build, a record of the values read back from the product ("-" where the product does not show the field)
Cur_OK(h, o) ==
   /\ Len(o.steps) = Len(h)
   /\ \A i \in DOMAIN h : (h[i][1] = "build") =>
         LET st == StateBefore(h, i) IN
         /\ \A f \in Shows(h[i][2]) : o.steps[i][f] = st[f]
         \* no explicit signing key here: the published signing certificate is the current encryption key's
         /\ (h[i][2] = "metadata") => o.steps[i].signkey = st.enckey
ModelStep(st, op) == IF op[1] = "set" THEN [f \in Fields \cup {"signkey"} |-> "-"]
                     ELSE [f \in Fields \cup {"signkey"} |-> IF f = "signkey" THEN (IF op[2] = "metadata" THEN st.enckey ELSE "-")
                                                              ELSE IF f \in Shows(op[2]) THEN st[f] ELSE "-"]
ModelOut(h) == [i \in 1..Len(h) |-> ModelStep(StateBefore(h, i), h[i])]
=============================================================================
