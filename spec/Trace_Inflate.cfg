SPECIFICATION Spec
CONSTANTS
  Limits = {"0"}
  Sizes = {"natural"}
  Entries = {"validate"}
POSTCONDITION TraceAccepted
CHECK_DEADLOCK FALSE
