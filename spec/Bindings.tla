------------------------------ MODULE Bindings ------------------------------
(***************************************************************************)
(* HTTP-Redirect URLs (C14) and HTTP-POST forms (C16):                     *)
(* build_request.go:138-301, 385-557; build_logout_response.go:98-158.     *)
(* relay is the class of the relay state (the driver draws the string:     *)
(* empty, plain, characters that mean something in a query string -- on a  *)
(* third of the draws only VALID percent escapes --, HTML, script, CR/LF,  *)
(* non-ASCII, long, mixed, not UTF-8 (Redirect only), C0 controls and      *)
(* non-characters, and every string literal of the library source under    *)
(* check).  The identical call on the same document must give the          *)
(* identical page and leave the document alone.                            *)
(***************************************************************************)
EXTENDS Naturals, Sequences, FiniteSets, TLC

CONSTANTS RelayClasses

Algs == {"unset", "rsa-sha1", "rsa-sha256", "rsa-sha384", "rsa-sha512", "ecdsa-sha256"}
\* signFieldEncSetter: the signing key sits in the deprecated field while the encryption key came through the setter
\* (the signing key still signs)
KeyCfgs == {"encField", "encSetter", "signField", "signSetter", "signFieldEncSetter"}
ExpSigner(x) == IF x.keycfg = "signFieldEncSetter" THEN "signField" ELSE x.keycfg
\* keytype: an ECDSA key can only be supplied through a setter (the deprecated fields are RSA-only)
KeyOK(x) == x.keytype = "ec" => x.keycfg \in {"encSetter", "signSetter"}

\* flows: authn = BuildAuthURLRedirect; authnPostBinding = BuildAuthURLFromDocument; authURL = BuildAuthURL (builds the
\* request itself); authRedirect = AuthRedirect (HTTP 302 whose Location is that URL); logoutReq = BuildLogoutURLRedirect
\* idpurl: what the configured IdP endpoint carries besides scheme, host and path (RFC 3986 query and/or fragment)
\* suffixquery: existing parameters whose NAMES end in SAMLRequest / RelayState / SigAlg (they are other parameters)
IdpUrls == {"noquery", "query", "fragment", "queryfragment", "suffixquery"}
\* doc: the document that is transported. built = as the library builds it from plain settings; builtCR = built from
\* settings whose strings contain CR / TAB / LF; caller = a document of the caller's own (XML declaration, comments
\* outside the root element, default write settings, attributes of its own, and a Destination of its own that differs
\* from the configured endpoint: where the message is SENT is configuration, not content)
\* callerBig: as caller, and well over 4 KiB when serialised (buffer boundaries of writers and encoders)
DocKinds == {"built", "builtCR", "caller", "callerBig"}
TakesDoc(x) == \/ x.binding = "redirect" /\ x.flow \in {"authn", "authnPostBinding", "logoutReq"}
               \/ x.binding = "post" /\ x.flow # "authn"
DocOK(x) == /\ (x.doc \in {"caller", "callerBig"} => TakesDoc(x))
            /\ (x.doc # "built" => (x.alg = "unset" /\ x.keycfg = "encField" /\ x.keytype = "rsa"))
\* inlimit: the SP's MaximumDecompressedBodySize.  It bounds what the SP INFLATES (C12); "small" sets it far below the size of
\* any outgoing message: what the SP SENDS must not depend on it (nothing is truncated, refused or re-encoded)
InLimits == {"unset", "small"}
LimitOK(x) == x.inlimit = "small" => (x.alg = "unset" /\ x.keycfg = "encField" /\ x.keytype = "rsa")
Redirect == { x \in [binding : {"redirect"}, flow : {"authn", "authnPostBinding", "authURL", "authRedirect", "logoutReq"}, relay : RelayClasses, idpurl : IdpUrls,
                     signReq : BOOLEAN, alg : Algs, keycfg : KeyCfgs, keytype : {"rsa", "ec"}, doc : DocKinds, inlimit : InLimits] : KeyOK(x) /\ DocOK(x) /\ LimitOK(x) }
Post == { x \in [binding : {"post"}, flow : {"authn", "authnFromDoc", "logoutReq", "logoutResp"}, relay : RelayClasses, idpurl : IdpUrls,
         signReq : BOOLEAN, alg : {"unset"}, keycfg : {"encField"}, keytype : {"rsa"}, doc : DocKinds, inlimit : InLimits] : DocOK(x) /\ LimitOK(x) }
\* relay classes "binary" (octets that are not UTF-8) exist for the Redirect binding only: a URL can carry any octets
\* percent-encoded, an HTML page is text
RelayOK(x) == x.relay = "binary" => x.binding = "redirect"
Inputs == { x \in Redirect \cup Post : RelayOK(x) }
Cfgs == [x : {0}]

\* the redirect URL carries a signature for the Redirect binding only; logout requests are always signed
SignApplies(in) == in.binding = "redirect" /\ (in.flow = "logoutReq" \/ (in.flow = "authn" /\ in.signReq))
\* the configured algorithm is used when it fits the key; otherwise (unset, or an algorithm of the other key
\* family, which the signing context refuses) the library default applies: SHA-256 with the key's algorithm
AlgFits(in) == in.alg # "unset" /\ ((in.alg = "ecdsa-sha256") <=> (in.keytype = "ec"))
ExpAlg(in) == IF AlgFits(in) THEN in.alg ELSE IF in.keytype = "ec" THEN "ecdsa-sha256" ELSE "rsa-sha256"
ModelOut(cfg, in) == [built |-> TRUE, relay_present |-> in.relay # "empty", sig_present |-> SignApplies(in)]

\* o (redirect): [built, endpoint_ok, params_ok, request_ok, relay_present, relay_ok, sig_present, sigalg, sig_ok, verified_by, order_ok]
C14_OK(cfg, in, o) ==
   (in.binding = "redirect") =>
      /\ o.built /\ o.endpoint_ok /\ o.params_ok /\ o.request_ok
      /\ (o.relay_present <=> in.relay # "empty")
      /\ (o.relay_present => o.relay_ok)
      /\ (SignApplies(in) => (o.sig_present /\ o.sigalg = ExpAlg(in) /\ o.sig_ok /\ o.verified_by = ExpSigner(in)))
      /\ (~SignApplies(in) => ~o.sig_present)

\* o (post): [built, forms, action_ok, field_count, field_ok, relay_present, relay_ok, script_submits, skeleton_ok, repeat_ok]
C16_OK(cfg, in, o) ==
   (in.binding = "post") =>
      /\ o.built /\ o.forms = 1 /\ o.action_ok
      /\ o.field_count = 1 /\ o.field_ok
      /\ (o.relay_present <=> in.relay # "empty")
      /\ (o.relay_present => o.relay_ok)
      /\ o.script_submits /\ o.skeleton_ok
      /\ o.repeat_ok        \* the identical call on the same document: the identical page, the document untouched

\* C15 (fragment): what travels is exactly the produced document, so every value in it is recovered by parsing
C15_OK(cfg, in, o) == o.built => ((in.binding = "redirect" => o.request_ok) /\ (in.binding = "post" => o.field_ok))

Conforms(m, o) == o.built = m.built /\ o.relay_present = m.relay_present /\ o.sig_present = m.sig_present
=============================================================================
