------------------------------ MODULE Genuine ------------------------------
(***************************************************************************)
(* Genuine IdP responses in every supported layout (C08) and agreement of  *)
(* the unverified pre-decode (C20).  The structural dimensions are         *)
(* enumerated here; value strings, attribute multisets and the serialised  *)
(* layout (prefix style, whitespace, comments, CDATA, character            *)
(* references, attribute order) are drawn per case from a seed.            *)
(* Not supported by the validator (context-dependent, excluded): an        *)
(* assertion signed on its own under *inclusive* canonicalisation and then *)
(* encrypted, inside an unsigned Response.                                 *)
(***************************************************************************)
EXTENDS Naturals, Sequences, FiniteSets, TLC

CONSTANTS C14Ns, Digests, SigAlgs, MaxAssertions

Inclusive == {"c14n11", "c14n11com", "c14n10", "c14n10com"}
Inputs == { x \in [place : {"root", "assert", "both"}, n : 1..MaxAssertions, enc : BOOLEAN, c14n : C14Ns, dig : Digests,
                   sigalg : SigAlgs, keyinfo : BOOLEAN, deflate : BOOLEAN] :
              ~(x.place = "assert" /\ x.enc /\ x.c14n \in Inclusive) }
Cfgs == [store : {"one", "two"}]
CaseOK(cfg, in) == (~in.keyinfo) => cfg.store = "one"     \* without KeyInfo the store must hold exactly one certificate (C02)

ModelOut(cfg, in) == [res |-> "accept", rflag |-> in.place # "assert", n |-> in.n]

\* o: [res, rflag, n, exact (every field of C08 equals the IdP simulator's data model),
\*     accessors (Get / GetAll / GetSize laws), pre : [ok, agree]]
C08_OK(cfg, in, o) == o.res = "accept" /\ o.n = in.n /\ o.exact /\ o.accessors
C20_OK(cfg, in, o) == (o.res = "accept") => (o.pre.ok /\ o.pre.agree)
C04_OK(cfg, in, o) == (o.res = "accept") => (o.rflag <=> in.place # "assert")
C09_OK(cfg, in, o) == o.res \in {"accept", "reject"}
Conforms(m, o) == o.res = m.res /\ (o.res = "accept" => (o.rflag = m.rflag /\ o.n = m.n))
=============================================================================
