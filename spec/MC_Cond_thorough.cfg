SPECIFICATION Spec
CONSTANTS
  MaxRestrictions = 3
  AudTokens = {"match", "case", "slash", "ws", "emptyaud"}
INVARIANTS InvC06 RunAgrees Emit
PROPERTIES Frozen Terminates
CHECK_DEADLOCK FALSE
