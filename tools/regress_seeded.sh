#!/bin/bash
# tools/regress_seeded.sh [tier] [pattern]
# Re-runs each stored seeded change against its property's check in one scratch worktree of /repo
# (outside /repo and /verif, removed afterwards) and reports which are still caught.
export GOFLAGS=-mod=mod GOPROXY=off GOSUMDB=off GOTOOLCHAIN=local
tier=${1:-quick}; pat=${2:-}
wt=$(mktemp -d /tmp/wt-reg.XXXXXX); rmdir $wt
git -C /repo worktree add -q --detach $wt HEAD || exit 2
trap 'git -C /repo worktree remove --force $wt; git -C /repo worktree prune' EXIT
cd /verif
miss=0
for d in seeded/*${pat}*/; do
  id=$(basename $d); prop=${id%%-*}
  git -C $wt checkout -q -- . && git -C $wt clean -fdq
  if ! git -C $wt apply /verif/$d/patch.diff 2>/dev/null; then echo "$id PATCH-DOES-NOT-APPLY"; miss=$((miss+1)); continue; fi
  VERIF_REPO=$wt bin/check $prop $tier > /tmp/regress_$id.log 2>&1; rc=$?
  n=$(grep -c '^VIOLATION' /tmp/regress_$id.log)
  if [ $rc -eq 1 ] && [ $n -gt 0 ]; then echo "$id caught ($n violation lines)"; rm -f /tmp/regress_$id.log
  else echo "$id NOT-CAUGHT exit=$rc (log /tmp/regress_$id.log)"; miss=$((miss+1)); fi
done
echo "regress_seeded: $miss not caught"
[ $miss -eq 0 ]
