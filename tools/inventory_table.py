#!/usr/bin/env python3
"""Prints, from /verif/evidence/*.json (the last run of each check), one row per specification family:
which properties it serves and how many cases TLC emitted / the driver replayed (DESIGN.md section 0.1)."""
import json, glob, collections
fam = collections.OrderedDict()
for f in sorted(glob.glob("/verif/evidence/C*.json")):
    d = json.load(open(f))
    pid = d.get("property_id") or f.split("/")[-1][:3]
    for x in d["coverage"]["families"]:
        r = fam.setdefault(x["family"], {"props": [], "emitted": x["tlc_cases_emitted"], "replayed": x["tlc_cases_replayed"], "extra": x["extra_cases"], "tier": d.get("tier", "")})
        r["props"].append(pid)
print("| family | serves | TLC-emitted cases | replayed | further cases of the driver's own |")
print("|---|---|---|---|---|")
for k, r in fam.items():
    print("| %s | %s | %d | %d | %d |" % (k, " ".join(r["props"]), r["emitted"], r["replayed"], r["extra"]))
