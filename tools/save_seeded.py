#!/usr/bin/env python3
"""tools/save_seeded.py <PROPERTY> <mutantN> <status> <caught_by> <note>
Copies a confirmed seeded change from /tmp/wt-out into /verif/seeded/<PROPERTY>-m<N>/ with meta.json."""
import sys, os, shutil, json, re
pid, mut, status, caught, note = sys.argv[1:6]
rnd = os.environ.get("SEEDED_ROUND", "1")
src = f"/tmp/wt-out/{pid}/{mut}" if rnd == "1" else f"/tmp/wt-out{rnd}/{pid}/{mut}"
n = re.sub(r"\D", "", mut)
if rnd != "1":
    n = str(int(n) + 2 * (int(rnd) - 1))
dst = f"/verif/seeded/{pid}-m{n}"
os.makedirs(dst, exist_ok=True)
shutil.copy(f"{src}/patch.diff", f"{dst}/patch.diff")
if os.path.exists(f"{src}/check_quick.log"):
    shutil.copy(f"{src}/check_quick.log", f"{dst}/check_quick.log")
for f in os.listdir(src):
    if f.endswith("_test.go") or f == "notes.md":
        shutil.copy(f"{src}/{f}", f"{dst}/{f}.txt" if f.endswith(".go") else f"{dst}/{f}")
notes = open(f"{src}/notes.md").read() if os.path.exists(f"{src}/notes.md") else ""
meta = {
    "id": f"{pid}-m{n}",
    "property": pid,
    "origin": "independent sub-agent given only the property text and a scratch worktree" + ("" if rnd == "1" else " (later round: also told which changes were already known and which mechanisms had been used, to avoid repeating them)"),
    "needs_to_manifest": notes.strip().split("\n\n")[0][:1200],
    "confirmed_by_me": "tools/try_mutant.sh: patch applies to the worktree at /repo HEAD, package builds, existing suite unchanged (only the two baseline failures), demonstration fails with the change and passes without it",
    "demonstration": "demo_test.go.txt (copy into the repository root as a _test.go file; `go test -vet=off -count=1 -run <name> .`)",
    "check_result": status,
    "caught_by": caught,
    "note": note,
}
json.dump(meta, open(f"{dst}/meta.json", "w"), indent=1)
print("saved", dst)
