#!/usr/bin/env python3
"""Prints the markdown table of /verif/seeded/*/meta.json (used for DESIGN.md section 0.6)."""
import json, glob, os
rows = []
def _key(path):
    d = os.path.basename(os.path.dirname(path))
    prop, m = d.split("-m")
    return (prop, int(m))
for f in sorted(glob.glob("/verif/seeded/*/meta.json"), key=_key):
    m = json.load(open(f))
    need = m["needs_to_manifest"].replace("\n", " ")
    need = need[:260] + ("…" if len(need) > 260 else "")
    first = "as built" if m["note"].startswith("caught as built") else m["note"]
    rows.append((m["id"], m["caught_by"], first))
print("| change | caught by | history |")
print("|---|---|---|")
for r in rows:
    print("| %s | %s | %s |" % r)
