#!/bin/bash
# tools/try_mutant.sh <PROPERTY> <mutant-dir> [tier]
# Confirms a seeded change (applies, builds, baseline unchanged, demonstration fails with it and passes
# without) in the scratch worktree /tmp/wt/<PROPERTY>, then runs the property's check against that worktree.
export GOFLAGS=-mod=mod GOPROXY=off GOSUMDB=off GOTOOLCHAIN=local
pid=$1; m=$2; tier=${3:-quick}; wt=/tmp/wt/$pid
fails() { (cd $wt && go test -vet=off -count=1 -json ./... 2>/dev/null | python3 -c "
import sys,json
f=set()
for l in sys.stdin:
    try: e=json.loads(l)
    except: continue
    if e.get('Test') and e.get('Action')=='fail': f.add(e['Test'].split('/')[0])
print(' '.join(sorted(f)))"); }
cd $wt && git checkout -q -- . && git clean -fdq
demo=$(ls $m/demo*_test.go $m/*_test.go 2>/dev/null | head -1)
[ -n "$demo" ] && cp $demo $wt/zz_seeded_demo_test.go
base=$(fails)
echo "demo without change: failing = [$base]"
if ! git apply $m/patch.diff; then echo "PATCH DOES NOT APPLY"; exit 3; fi
if ! go build ./... ; then echo "DOES NOT BUILD"; git checkout -q -- .; exit 3; fi
with=$(fails)
echo "demo with change:    failing = [$with]"
rm -f $wt/zz_seeded_demo_test.go
suite=$(fails)
echo "suite with change:   failing = [$suite]"
cd /verif && VERIF_REPO=$wt bin/check $pid $tier > $m/check_$tier.log 2>&1; rc=$?
echo "check $pid $tier exit=$rc: $(grep -c VIOLATION $m/check_$tier.log) violation lines; $(grep -E '^RESULT' $m/check_$tier.log)"
cd $wt && git checkout -q -- . && git clean -fdq
