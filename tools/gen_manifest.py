#!/usr/bin/env python3
"""Regenerates /verif/MANIFEST.json from tools/manifest_src.json (claimed checks) and properties.jsonl."""
import json, os
here = os.path.dirname(os.path.dirname(os.path.abspath(__file__)))
src = json.load(open(os.path.join(here, "tools", "manifest_src.json")))
props = [json.loads(l) for l in open(os.path.join(here, "properties.jsonl"))]
claimed = {c["property_id"] for c in src["checks"]}
checks = []
for c in src["checks"]:
    pid = c["property_id"]
    checks.append({
        "property_id": pid,
        "quick_cmd": f"bin/check {pid} quick",
        "thorough_cmd": f"bin/check {pid} thorough",
        "evidence_file": f"/verif/evidence/{pid}.json",
        "replay_cmd_template": f"bin/check {pid} --replay {{path}}",
        "engine": "tlc-trace",
        "level_claimed": {"category": c["level"], "text": c["text"], "design_ref": c.get("design_ref", "DESIGN.md section 6")},
        "level_note": c["note"],
        "technique": c["technique"],
    })
na = [{"property_id": p["id"], "reason": src["not_applicable"].get(p["id"], "check under construction in this round; not yet claimed")}
      for p in props if p["id"] not in claimed]
m = {
    "version": 1,
    "setup_cmd": src["setup_cmd"],
    "hooks": src["hooks"],
    "engines": src["engines"],
    "checks": checks,
    "notes": src["notes"],
    "not_applicable": na,
}
json.dump(m, open(os.path.join(here, "MANIFEST.json"), "w"), indent=1)
print("claimed", sorted(claimed), "not claimed", [x["property_id"] for x in na])
