#!/usr/bin/env python3
"""Line server: {"id":..,"xml_b64":..} -> projection of the document by expat (a conforming,
non-Go XML parser): {"id":..,"ok":bool,"err":str,"root":node}; node = {"ns","name","attrs":[[ns,name,value]..],
"text": concatenated character data directly inside, "children":[node..]}.
With {"html_b64":..} it projects HTML with html.parser instead: list of [tag, [[attr,value]..]] start tags,
plus text of <script> elements."""
import sys, json, base64
import xml.parsers.expat as expat
from html.parser import HTMLParser

def proj_xml(data):
    p = expat.ParserCreate(namespace_separator='\x1f')
    p.buffer_text = True
    p.ordered_attributes = True
    stack = []
    root = [None]
    def split(n):
        if '\x1f' in n:
            ns, name = n.split('\x1f', 1)
            return ns, name
        return '', n
    def start(name, attrs):
        ns, local = split(name)
        node = {"ns": ns, "name": local, "attrs": [], "text": "", "children": []}
        for i in range(0, len(attrs), 2):
            ans, al = split(attrs[i])
            node["attrs"].append([ans, al, attrs[i+1]])
        if stack:
            stack[-1]["children"].append(node)
        else:
            root[0] = node
        stack.append(node)
    def end(name):
        stack.pop()
    def chars(data):
        if stack:
            stack[-1]["text"] += data
    p.StartElementHandler = start
    p.EndElementHandler = end
    p.CharacterDataHandler = chars
    p.Parse(data, True)
    return root[0]

class HP(HTMLParser):
    def __init__(self):
        super().__init__(convert_charrefs=True)
        self.tags = []
        self.scripts = []
        self.in_script = False
        self.text = []
    def handle_starttag(self, tag, attrs):
        self.tags.append([tag, [[k, v if v is not None else ""] for k, v in attrs]])
        if tag == "script":
            self.in_script = True
            self.scripts.append("")
    def handle_startendtag(self, tag, attrs):
        self.tags.append([tag, [[k, v if v is not None else ""] for k, v in attrs]])
    def handle_endtag(self, tag):
        if tag == "script":
            self.in_script = False
        self.tags.append(["/" + tag, []])
    def handle_data(self, data):
        if self.in_script and self.scripts:
            self.scripts[-1] += data
        elif data.strip():
            self.text.append(data)

def main():
    for line in sys.stdin:
        line = line.strip()
        if not line:
            continue
        req = json.loads(line)
        out = {"id": req.get("id")}
        try:
            if "xml_b64" in req:
                out["root"] = proj_xml(base64.b64decode(req["xml_b64"]))
                out["ok"] = True
            else:
                h = HP()
                raw = base64.b64decode(req["html_b64"])
                out["utf8_ok"] = True
                try:
                    text = raw.decode("utf-8")
                except UnicodeDecodeError:
                    out["utf8_ok"] = False
                    text = raw.decode("utf-8", errors="replace")
                h.feed(text)
                h.close()
                out["tags"], out["scripts"], out["text"] = h.tags, h.scripts, h.text
                out["ok"] = True
        except Exception as e:
            out["ok"] = False
            out["err"] = str(e)
        sys.stdout.write(json.dumps(out) + "\n")
        sys.stdout.flush()

if __name__ == "__main__":
    main()
