// Package pyproj talks to tools/xmlproj.py: expat and html.parser as parsers independent of Go's.
package pyproj

import (
	"bufio"
	"encoding/base64"
	"encoding/json"
	"fmt"
	"io"
	"os"
	"os/exec"
	"sync"
)

type Node struct {
	NS       string      `json:"ns"`
	Name     string      `json:"name"`
	Attrs    [][3]string `json:"attrs"`
	Text     string      `json:"text"`
	Children []*Node     `json:"children"`
}

func (n *Node) Attr(name string) (string, bool) {
	for _, a := range n.Attrs {
		if a[0] == "" && a[1] == name {
			return a[2], true
		}
	}
	return "", false
}

func (n *Node) Child(name string) *Node {
	for _, c := range n.Children {
		if c.Name == name {
			return c
		}
	}
	return nil
}

type Tag struct {
	Name  string
	Attrs [][2]string
}

type HTML struct {
	UTF8OK  bool
	Tags    []Tag
	Scripts []string
	Text    []string
}

type worker struct {
	cmd *exec.Cmd
	in  io.WriteCloser
	out *bufio.Reader
}

var (
	mu   sync.Mutex
	pool chan *worker
)

const nWorkers = 6

func start() (*worker, error) {
	root := os.Getenv("VERIF_DIR")
	if root == "" {
		root = "/verif"
	}
	cmd := exec.Command("python3", root+"/tools/xmlproj.py")
	in, err := cmd.StdinPipe()
	if err != nil {
		return nil, err
	}
	out, err := cmd.StdoutPipe()
	if err != nil {
		return nil, err
	}
	if err := cmd.Start(); err != nil {
		return nil, err
	}
	return &worker{cmd: cmd, in: in, out: bufio.NewReaderSize(out, 1<<20)}, nil
}

func get() (*worker, error) {
	mu.Lock()
	if pool == nil {
		pool = make(chan *worker, nWorkers)
		for i := 0; i < nWorkers; i++ {
			w, err := start()
			if err != nil {
				mu.Unlock()
				return nil, err
			}
			pool <- w
		}
	}
	mu.Unlock()
	return <-pool, nil
}

func call(req map[string]any) (map[string]json.RawMessage, error) {
	w, err := get()
	if err != nil {
		return nil, err
	}
	defer func() { pool <- w }()
	b, _ := json.Marshal(req)
	if _, err := w.in.Write(append(b, '\n')); err != nil {
		return nil, err
	}
	line, err := w.out.ReadBytes('\n')
	if err != nil {
		return nil, err
	}
	var resp map[string]json.RawMessage
	if err := json.Unmarshal(line, &resp); err != nil {
		return nil, err
	}
	return resp, nil
}

// XML parses data with expat. A parse error is returned as perr (the tool itself failing as err).
func XML(data []byte) (root *Node, perr string, err error) {
	resp, err := call(map[string]any{"id": 0, "xml_b64": base64.StdEncoding.EncodeToString(data)})
	if err != nil {
		return nil, "", err
	}
	var ok bool
	json.Unmarshal(resp["ok"], &ok)
	if !ok {
		json.Unmarshal(resp["err"], &perr)
		return nil, perr, nil
	}
	root = &Node{}
	if err := json.Unmarshal(resp["root"], root); err != nil {
		return nil, "", err
	}
	return root, "", nil
}

// ParseHTML tokenises data with html.parser.
func ParseHTML(data []byte) (*HTML, error) {
	resp, err := call(map[string]any{"id": 0, "html_b64": base64.StdEncoding.EncodeToString(data)})
	if err != nil {
		return nil, err
	}
	var ok bool
	json.Unmarshal(resp["ok"], &ok)
	if !ok {
		return nil, fmt.Errorf("html.parser failed: %s", resp["err"])
	}
	var raw [][]json.RawMessage
	if err := json.Unmarshal(resp["tags"], &raw); err != nil {
		return nil, err
	}
	h := &HTML{}
	for _, t := range raw {
		var tag Tag
		json.Unmarshal(t[0], &tag.Name)
		json.Unmarshal(t[1], &tag.Attrs)
		h.Tags = append(h.Tags, tag)
	}
	json.Unmarshal(resp["utf8_ok"], &h.UTF8OK)
	json.Unmarshal(resp["scripts"], &h.Scripts)
	json.Unmarshal(resp["text"], &h.Text)
	return h, nil
}
