module verifharness

go 1.21.0

require (
	github.com/beevik/etree v1.5.0
	github.com/mattermost/xml-roundtrip-validator v0.1.0
	github.com/russellhaering/gosaml2 v0.0.0
	github.com/russellhaering/goxmldsig v1.5.0
)

require github.com/jonboulle/clockwork v0.5.0 // indirect

replace github.com/russellhaering/gosaml2 => /repo
