//go:build verif

package fam

import (
	"crypto/sha256"
	"encoding/hex"
	"encoding/json"
	"encoding/xml"
	"fmt"
	"reflect"
	"regexp"
	"sort"
	"strings"
	"sync"

	"github.com/beevik/etree"
	saml2 "github.com/russellhaering/gosaml2"
	"github.com/russellhaering/gosaml2/types"

	"verifharness/orch"
	"verifharness/world"
)

// SpLife replays operation histories of spec/SpLife.tla on one service provider.
type SpLife struct{}

type slInput struct {
	H []string `json:"h"`
}
type slStep struct {
	Op      string `json:"op"`
	Result  string `json:"result"`
	CfgSame bool   `json:"cfg_same"`
}
type slObs struct {
	Steps []slStep `json:"steps"`
	Note  string   `json:"note"`
}

func (SpLife) Name() string                    { return "SpLife" }
func (SpLife) MC(tier string) (string, string) { return "MC_SpLife.tla", "MC_SpLife_" + tier + ".cfg" }
func (SpLife) Trace() (string, string)         { return "Trace_SpLife.tla", "Trace_SpLife.cfg" }
func (SpLife) Cap(tier string) int             { return 0 }
func (SpLife) Layouts(tier string) int         { return 1 }
func (SpLife) Extra(string, int64) []orch.Case { return nil }

// cfgDigest fingerprints everything that is configuration (not the lazily created signing context).
func cfgDigest(sp *saml2.SAMLServiceProvider) string {
	var sb strings.Builder
	v := reflect.ValueOf(sp).Elem()
	t := v.Type()
	for i := 0; i < t.NumField(); i++ {
		f := t.Field(i)
		fv := v.Field(i)
		switch f.Name {
		case "signingContext", "signingContextMu":
			continue
		case "RequestedAuthnContext":
			if sp.RequestedAuthnContext != nil {
				fmt.Fprintf(&sb, "%s=%q/%q;", f.Name, sp.RequestedAuthnContext.Comparison, sp.RequestedAuthnContext.Contexts)
			}
			continue
		case "IDPCertificateStore":
			if sp.IDPCertificateStore != nil {
				roots, _ := sp.IDPCertificateStore.Certificates()
				for _, r := range roots {
					h := sha256.Sum256(r.Raw)
					sb.WriteString("root=" + hex.EncodeToString(h[:8]) + ";")
				}
			}
			continue
		}
		switch fv.Kind() {
		case reflect.String:
			fmt.Fprintf(&sb, "%s=%q;", f.Name, fv.String())
		case reflect.Bool:
			fmt.Fprintf(&sb, "%s=%v;", f.Name, fv.Bool())
		case reflect.Int64:
			fmt.Fprintf(&sb, "%s=%d;", f.Name, fv.Int())
		case reflect.Ptr:
			fmt.Fprintf(&sb, "%s@%x;", f.Name, fv.Pointer())
			if f.Name == "spKeyStoreOverride" || f.Name == "spSigningKeyStoreOverride" {
				if !fv.IsNil() {
					cert := fv.Elem().FieldByName("Cert")
					h := sha256.Sum256(cert.Bytes())
					sb.WriteString("cert=" + hex.EncodeToString(h[:8]) + ";")
				}
			}
		case reflect.Interface:
			if !fv.IsNil() {
				fmt.Fprintf(&sb, "%s:%s;", f.Name, fv.Elem().Type())
			}
		}
	}
	if sp.SPKeyStore != nil {
		if k, c, err := sp.SPKeyStore.GetKeyPair(); err == nil {
			h := sha256.Sum256(c)
			sb.WriteString("spcert=" + hex.EncodeToString(h[:8]) + ";")
			if k != nil {
				// the key object is configuration too: a call must not write into it
				fmt.Fprintf(&sb, "spkey-precomputed=%v/%v/%d;", k.Precomputed.Dp != nil, k.Precomputed.Qinv != nil, len(k.Precomputed.CRTValues))
			}
		}
	}
	if sp.Clock != nil {
		sb.WriteString("clock=" + sp.Clock.Now().String())
	}
	return sb.String()
}

var (
	reID     = regexp.MustCompile(`ID="_[0-9a-f-]{36}"`)
	reSigVal = regexp.MustCompile(`(?s)<ds:SignatureValue>.*?</ds:SignatureValue>`)
	reDigest = regexp.MustCompile(`(?s)<ds:DigestValue>.*?</ds:DigestValue>`)
	reReq    = regexp.MustCompile(`SAMLRequest=[^&]*`)
	reSigPar = regexp.MustCompile(`Signature=[^&]*`)
	reRefURI = regexp.MustCompile(`URI="#_[0-9a-f-]{36}"`)
)

// stable removes what legitimately differs between two calls (fresh ID, signature over it).
func stableDoc(b []byte) string {
	s := string(b)
	s = reID.ReplaceAllString(s, `ID="_X"`)
	s = reRefURI.ReplaceAllString(s, `URI="#_X"`)
	s = reSigVal.ReplaceAllString(s, "<ds:SignatureValue/>")
	s = reDigest.ReplaceAllString(s, "<ds:DigestValue/>")
	return s
}

type slResult struct {
	digest string
	value  any
}

func slCall(sp *saml2.SAMLServiceProvider, in *RaceIn, op string) (r slResult) {
	defer func() {
		if rec := recover(); rec != nil {
			r.digest = fmt.Sprint("panic:", rec)
		}
	}()
	respDigest := func(resp *types.Response, err error) string {
		if err != nil {
			return "err:" + errClass(err)
		}
		var sb strings.Builder
		fmt.Fprintf(&sb, "%s|%s|%v|", resp.ID, resp.InResponseTo, resp.SignatureValidated)
		for i := range resp.Assertions {
			sb.WriteString(world.Identify(&resp.Assertions[i]) + fmt.Sprint(resp.Assertions[i].SignatureValidated) + ",")
		}
		return sb.String()
	}
	switch op {
	case "validate":
		resp, err := sp.ValidateEncodedResponse(in.SSO)
		return slResult{respDigest(resp, err), resp}
	case "validateEnc":
		resp, err := sp.ValidateEncodedResponse(in.SSOEnc)
		return slResult{respDigest(resp, err), resp}
	case "validateBad":
		resp, err := sp.ValidateEncodedResponse(in.LogoutReq) // another kind of message: rejected
		return slResult{respDigest(resp, err), resp}
	case "info":
		info, err := sp.RetrieveAssertionInfo(in.SSOEnc)
		if err != nil {
			return slResult{"err:" + errClass(err), nil}
		}
		keys := []string{}
		for k := range info.Values {
			keys = append(keys, k+"="+strings.Join(info.Values.GetAll(k), ","))
		}
		sort.Strings(keys)
		return slResult{fmt.Sprint(info.NameID, info.SessionIndex, info.ResponseSignatureValidated, keys, len(info.Assertions), *info.WarningInfo), info}
	case "logoutReq":
		lr, err := sp.ValidateEncodedLogoutRequestPOST(in.LogoutReq)
		if err != nil {
			return slResult{"err:" + errClass(err), nil}
		}
		return slResult{fmt.Sprint(lr.ID, lr.Destination, lr.Issuer.Value, lr.NameID.Value, lr.SignatureValidated), lr}
	case "logoutResp":
		lr, err := sp.ValidateEncodedLogoutResponsePOST(in.LogoutResp)
		if err != nil {
			return slResult{"err:" + errClass(err), nil}
		}
		return slResult{fmt.Sprint(lr.ID, lr.InResponseTo, lr.Destination, lr.Issuer.Value, lr.SignatureValidated), lr}
	case "buildAuthn":
		doc, err := sp.BuildAuthRequestDocument()
		if err != nil {
			return slResult{"err:" + err.Error(), nil}
		}
		b, _ := doc.WriteToBytes()
		o := &oObs{}
		analyseSignature(b, o)
		return slResult{stableDoc(b) + fmt.Sprint(o.VerifiedBy, o.DigestOK, o.SigposOK), doc}
	case "buildLogout":
		doc, err := sp.BuildLogoutRequestDocument("alice@example.com", "sess-1")
		if err != nil {
			return slResult{"err:" + err.Error(), nil}
		}
		b, _ := doc.WriteToBytes()
		o := &oObs{}
		analyseSignature(b, o)
		return slResult{stableDoc(b) + fmt.Sprint(o.VerifiedBy, o.DigestOK, o.SigposOK), doc}
	case "redirect":
		doc, err := sp.BuildLogoutRequestDocumentNoSig("alice@example.com", "sess-1")
		if err != nil {
			return slResult{"err:" + err.Error(), nil}
		}
		u, err := sp.BuildLogoutURLRedirect("relay state", doc)
		if err != nil {
			return slResult{"err:" + err.Error(), nil}
		}
		u = reSigPar.ReplaceAllString(reReq.ReplaceAllString(u, "SAMLRequest=X"), "Signature=X")
		return slResult{u, doc}
	case "metadata":
		md, err := sp.Metadata()
		if err != nil {
			return slResult{"err:" + err.Error(), nil}
		}
		b, _ := xml.Marshal(md)
		return slResult{string(b), md}
	}
	return slResult{"unknown op", nil}
}

// mutate scribbles over a returned value as deeply as it can.
func mutate(v any) {
	defer func() { recover() }()
	switch x := v.(type) {
	case *types.Response:
		if x == nil {
			return
		}
		x.ID, x.Destination = "mutated", "mutated"
		if x.Issuer != nil {
			x.Issuer.Value = "mutated"
		}
		for i := range x.Assertions {
			a := &x.Assertions[i]
			a.ID = "mutated"
			if a.Subject != nil && a.Subject.NameID != nil {
				a.Subject.NameID.Value = "mutated"
			}
			if a.AttributeStatement != nil {
				for j := range a.AttributeStatement.Attributes {
					at := &a.AttributeStatement.Attributes[j]
					at.Name = "mutated"
					for k := range at.Values {
						at.Values[k].Value = "mutated"
					}
				}
				a.AttributeStatement.Attributes = a.AttributeStatement.Attributes[:0]
			}
		}
		x.Assertions = append(x.Assertions[:0], types.Assertion{ID: "injected"})
	case *saml2.AssertionInfo:
		x.NameID = "mutated"
		for k := range x.Values {
			delete(x.Values, k)
		}
		x.Values["injected"] = types.Attribute{Name: "injected"}
		for i := range x.Assertions {
			x.Assertions[i].ID = "mutated"
		}
		x.WarningInfo.InvalidTime = true
	case *saml2.LogoutRequest:
		x.ID = "mutated"
		x.Issuer.Value = "mutated"
		x.NameID.Value = "mutated"
	case *types.LogoutResponse:
		x.ID = "mutated"
		x.Issuer.Value = "mutated"
		x.Status.StatusCode.Value = "mutated"
	case *etree.Document:
		r := x.Root()
		r.CreateAttr("Destination", "https://evil.example/")
		for _, e := range r.FindElements("//*") {
			e.SetText("mutated")
			for i := range e.Attr {
				e.Attr[i].Value = "mutated"
			}
		}
		x.SetRoot(etree.NewElement("mutated"))
	case *types.EntityDescriptor:
		x.EntityID = "mutated"
		if x.SPSSODescriptor != nil {
			for i := range x.SPSSODescriptor.KeyDescriptors {
				kd := &x.SPSSODescriptor.KeyDescriptors[i]
				kd.Use = "mutated"
				for j := range kd.KeyInfo.X509Data.X509Certificates {
					kd.KeyInfo.X509Data.X509Certificates[j].Data = "mutated"
				}
				for j := range kd.EncryptionMethods {
					kd.EncryptionMethods[j].Algorithm = "mutated"
				}
			}
			for i := range x.SPSSODescriptor.AssertionConsumerServices {
				x.SPSSODescriptor.AssertionConsumerServices[i].Location = "mutated"
			}
		}
	}
}

var (
	slOnce sync.Once
	slSolo map[string]string
	slIn   *RaceIn
)

func (SpLife) Run(c *orch.Case) *orch.Outcome {
	var in slInput
	if json.Unmarshal(c.Input, &in) != nil {
		orch.Fatal("splife: bad case")
	}
	slOnce.Do(func() {
		slIn = RaceInputs()
		slSolo = map[string]string{}
		for _, op := range []string{"validate", "validateEnc", "validateBad", "info", "logoutReq", "logoutResp", "buildAuthn", "buildLogout", "redirect", "metadata"} {
			slSolo[op] = slCall(scSP(), slIn, op).digest
		}
	})
	sp := scSP()
	o := &slObs{Steps: []slStep{}}
	var last any
	for _, op := range in.H {
		before := cfgDigest(sp)
		st := slStep{Op: op, Result: "na"}
		if op == "mut" {
			mutate(last)
		} else {
			r := slCall(sp, slIn, op)
			last = r.value
			if r.digest == slSolo[op] {
				st.Result = "same"
			} else {
				st.Result = "diff"
				o.Note = fmt.Sprintf("%s: %.300s  VERSUS alone: %.300s", op, r.digest, slSolo[op])
			}
		}
		st.CfgSame = cfgDigest(sp) == before
		if !st.CfgSame {
			o.Note += " configuration changed by " + op
		}
		o.Steps = append(o.Steps, st)
	}
	return &orch.Outcome{Obs: o, Replay: map[string]any{"history": in.H, "note": o.Note}}
}

func (SpLife) Corrupt(c *orch.Case, o *orch.Outcome) (any, string, bool) {
	ob := o.Obs.(*slObs)
	if len(ob.Steps) == 0 {
		return nil, "", false
	}
	cp := slObs{Steps: append([]slStep{}, ob.Steps...)}
	cp.Steps[0].CfgSame = false
	return &cp, "C17", true
}
