//go:build verif

package fam

import (
	"crypto/rsa"
	"bytes"
	"encoding/base64"
	"encoding/json"
	"fmt"
	"html"
	"runtime"
	"sort"
	"strings"
	"sync"
	"time"

	"github.com/beevik/etree"
	saml2 "github.com/russellhaering/gosaml2"
	dsig "github.com/russellhaering/goxmldsig"

	"verifharness/idp"
	"verifharness/orch"
	"verifharness/sched"
	"verifharness/world"
)

// Concur binds spec/Concur.tla: every call's result under concurrency is compared with the result of
// the same call alone.
type Concur struct{}

type ccInput struct {
	Mode   string   `json:"mode"`
	Ops    []string `json:"ops"`
	Shared bool     `json:"shared"`
	A      string   `json:"a"`
	Gate   string   `json:"gate"`
	B      string   `json:"b"`
}
type ccObs struct {
	Ran     []string       `json:"ran"`
	Wrong   []string       `json:"wrong"`
	Reached bool           `json:"reached"`
	CfgSame bool           `json:"config_same"`
	Calls   map[string]int `json:"calls"`
	Bad     map[string]int `json:"bad"`
	Note    string         `json:"note"`
}

func (Concur) Name() string                    { return "Concur" }
func (Concur) MC(tier string) (string, string) { return "MC_Concur.tla", "MC_Concur_" + tier + ".cfg" }
func (Concur) Trace() (string, string)         { return "Trace_Concur.tla", "Trace_Concur.cfg" }
func (Concur) Cap(tier string) int             { return 0 }
func (Concur) Layouts(tier string) int         { return 1 }
func (Concur) Extra(string, int64) []orch.Case { return nil }
func (Concur) Serial() bool                    { return true }

const ccK = 8 // distinct argument sets per operation

func ccSP() *saml2.SAMLServiceProvider {
	sp := scSP()
	sp.SignAuthnRequests = true
	// the decryption key as an importer of key material builds it: modulus, exponents and primes, nothing precomputed
	// (a fresh object per provider; whatever a call writes into it shows in the configuration digest)
	w := world.Get()
	k := w.SP.Key.(*rsa.PrivateKey)
	sp.SPKeyStore = dsig.TLSCertKeyStore{Certificate: [][]byte{w.SP.DER}, PrivateKey: &rsa.PrivateKey{PublicKey: k.PublicKey, D: k.D, Primes: k.Primes}}
	return sp
}

// inbound messages, one per index, each with identifiers of its own, and what the call returns alone
type ccMsg struct{ enc, entry, alone string }

var (
	ccOnce     sync.Once
	ccMsgs     map[string][]ccMsg
	ccBadAlone = map[string]string{}
)

func ccFingerprint(sp *saml2.SAMLServiceProvider, entry, enc string) string {
	// (the error's text is part of the outcome: identical calls give identical outcomes)
	res, data, errc, text := callEntryText(sp, entry, enc)
	return res + "|" + data + "|" + errc + "|" + text
}

func ccInbound() map[string][]ccMsg {
	ccOnce.Do(func() {
		w := world.Get()
		ccMsgs = map[string][]ccMsg{}
		add := func(op, entry string, k int, doc []byte, deflate bool) {
			enc := idp.Encode(doc, deflate)
			ccMsgs[op] = append(ccMsgs[op], ccMsg{enc, entry, ccFingerprint(w.NewSP(), entry, enc)})
		}
		for k := 0; k < ccK; k++ {
			b := idp.NewBuilder(idp.Layout{Prefix: k % 4, Pretty: k%2 == 0}, int64(500+k))
			sso := func(mut func(rs *idp.Response, a *idp.Assertion, root *etree.Element)) []byte {
				rs := genuineRoot()
				rs.ID = fmt.Sprintf("_resp-cc-%d", k)
				rs.InResponseTo = idp.S(fmt.Sprintf("_req-cc-%d", k))
				a := world.Content("GA1")
				a.ID = fmt.Sprintf("_as-cc-%d", k)
				a.Subject.NameID = idp.S(fmt.Sprintf("user-%d@example.com", k))
				a.Authn.SessionIndex = idp.S(fmt.Sprintf("sess-cc-%d", k))
				a.Subject.Conf.Data.InResponseTo = rs.InResponseTo
				if mut != nil {
					mut(rs, a, nil)
				}
				root := b.ResponseEl(rs)
				root.AddChild(b.AssertionEl(a, false))
				mustSign(root, idp.DefaultSig(w.IdpA.Key, w.IdpA.DER))
				if mut != nil {
					mut(nil, nil, root)
				}
				return idp.Plain(root)
			}
			// the summary of this message carries a ProxyRestriction with several audiences (their order is part of the result)
			plain := sso(func(rs *idp.Response, a *idp.Assertion, root *etree.Element) {
				if a != nil {
					a.Conditions.Proxy = &idp.Proxy{Count: idp.I(2), Audiences: []string{"https://c.example/3", "https://a.example/1", "https://b.example/2", "https://d.example/4"}}
					a.Conditions.OneTimeUse = k%2 == 0
				}
			})
			add("validateRaw", "validate", k, plain, false)
			add("validateDeflate", "validate", k, plain, true)
			add("infoDeflate", "info", k, plain, true)
			add("predecodeDeflate", "predecodeResp", k, plain, true)
			// refused documents, compressed: wrong destination (even) / a CDATA section the round-trip check refuses (odd)
			add("refusedDeflate", "validate", k, sso(func(rs *idp.Response, a *idp.Assertion, root *etree.Element) {
				if rs != nil && k%2 == 0 {
					rs.Destination = idp.S(fmt.Sprintf("https://evil-%d.example/acs", k))
				}
				if root != nil && k%2 == 1 {
					root.AddChild(etree.NewCData(""))
				}
			}), true)
			// two assertions of an unsigned Response that fail for different reasons: altered after signing / never signed
			{
				rs := genuineRoot()
				rs.ID = fmt.Sprintf("_resp-twobad-%d", k)
				root := b.ResponseEl(rs)
				a1 := world.Content("GA1")
				a1.ID = fmt.Sprintf("_as-twobad-a-%d", k)
				e1 := b.AssertionEl(a1, false)
				root.AddChild(e1)
				a2 := world.Content("GA2")
				a2.ID = fmt.Sprintf("_as-twobad-b-%d", k)
				e2 := b.AssertionEl(a2, false)
				root.AddChild(e2)
				altered, unsigned := e1, e2
				if k%2 == 1 {
					altered, unsigned = e2, e1
				}
				_ = unsigned
				mustSign(altered, idp.DefaultSig(w.IdpA.Key, w.IdpA.DER))
				for _, n := range altered.FindElements(".//NameID") {
					n.SetText("mallory@example.com")
				}
				add("twoBad", "validate", k, idp.Plain(root), k%3 == 0)
			}
			// encrypted
			{
				a := world.Content("GA1")
				a.ID = fmt.Sprintf("_as-ccenc-%d", k)
				a.Subject.NameID = idp.S(fmt.Sprintf("enc-user-%d@example.com", k))
				ae := ownSigned(b, w, a, true)
				dig := []string{"", idp.EdSHA1, idp.EdSHA256}[k%3]
				ee, err := b.EncryptedAssertion(idp.Plain(ae), idp.EncOpts{DataAlg: idp.EncAES128GCM, KeyTransport: idp.KtOAEP, Digest: dig, Pub: &idp.RSAKey("sp").PublicKey})
				if err != nil {
					orch.Fatal("concur: encrypt: %v", err)
				}
				rs := genuineRoot()
				rs.ID = fmt.Sprintf("_resp-ccenc-%d", k)
				root := b.ResponseEl(rs)
				root.AddChild(ee)
				add("validateEnc", "validate", k, idp.Plain(root), k%2 == 0)
			}
			lr := logoutSpec("resp", fmt.Sprintf("_lresp-cc-%d", k))
			lr.InResponseTo = idp.S(fmt.Sprintf("_lreq-cc-%d", k))
			lroot := b.ResponseEl(lr)
			mustSign(lroot, idp.DefaultSig(w.IdpA.Key, w.IdpA.DER))
			add("logoutRespDeflate", "logoutResp", k, idp.Plain(lroot), true)
			lq := logoutSpec("req", fmt.Sprintf("_lq-cc-%d", k))
			lq.NameID = idp.S(fmt.Sprintf("user-%d@example.com", k))
			qroot := b.ResponseEl(lq)
			mustSign(qroot, idp.DefaultSig(w.IdpA.Key, w.IdpA.DER))
			add("logoutReq", "logoutReq", k, idp.Plain(qroot), false)
		}
		for op, ms := range ccMsgs {
			acc := 0
			for _, m := range ms {
				if strings.HasPrefix(m.alone, "accept|") {
					acc++
				}
			}
			refused := op == "refusedDeflate" || op == "twoBad"
			if refused != (acc == 0) || (!refused && acc != ccK) {
				// genuine messages refused (or refusable ones accepted) even alone: every result of this operation is wrong
				ccBadAlone[op] = fmt.Sprintf("alone results of %s are not as intended (%d of %d accepted): %s", op, acc, ccK, ms[0].alone)
			}
		}
	})
	return ccMsgs
}

// checkSignedDoc: one enveloped signature by the configured key, in place, digest and value right
func checkSignedDoc(doc *etree.Document, err error) (*etree.Element, string) {
	if err != nil || doc == nil || doc.Root() == nil {
		return nil, fmt.Sprint("build: ", err)
	}
	b, _ := doc.WriteToBytes()
	o := &oObs{}
	analyseSignature(b, o)
	if o.Sigcount != 1 || !o.SigposOK || o.VerifiedBy != "signSetter" || !o.DigestOK || o.Embedded != "signSetter" {
		return nil, fmt.Sprintf("signature: %+v", *o)
	}
	return doc.Root(), ""
}

// ccCall performs operation op with argument set k / serial number n and says what is wrong with the result ("" = nothing).
func ccCall(sp *saml2.SAMLServiceProvider, op string, k, n int) (note string) {
	defer func() {
		if r := recover(); r != nil {
			note = fmt.Sprint("panic: ", r)
		}
	}()
	tag := fmt.Sprintf("%s-%d-%d", op, k, n)
	text := func(root *etree.Element, path string) string {
		if e := root.FindElement(path); e != nil {
			return e.Text()
		}
		return "<absent>"
	}
	switch op {
	case "authnDoc":
		root, note := checkSignedDoc(sp.BuildAuthRequestDocument())
		if note != "" {
			return note
		}
		if root.Tag != "AuthnRequest" || text(root, "./Issuer") != sp.ServiceProviderIssuer {
			return "not this provider's AuthnRequest"
		}
	case "logoutReqDoc":
		root, note := checkSignedDoc(sp.BuildLogoutRequestDocument("name-"+tag, "sess-"+tag))
		if note != "" {
			return note
		}
		if text(root, "./NameID") != "name-"+tag || text(root, "./SessionIndex") != "sess-"+tag {
			return "LogoutRequest carries another call's NameID / SessionIndex"
		}
	case "logoutRespDoc":
		root, note := checkSignedDoc(sp.BuildLogoutResponseDocument(saml2.StatusCodeSuccess, "_irt-"+tag))
		if note != "" {
			return note
		}
		if root.SelectAttrValue("InResponseTo", "") != "_irt-"+tag {
			return "LogoutResponse answers another call's request"
		}
	case "redirectAuthn", "redirectLogout":
		var doc *etree.Document
		var err error
		in := &bInput{Binding: "redirect", Flow: "authn", Idpurl: "noquery", SignReq: true, Keycfg: "signSetter"}
		if op == "redirectAuthn" {
			doc, err = sp.BuildAuthRequestDocumentNoSig()
		} else {
			in.Flow = "logoutReq"
			doc, err = sp.BuildLogoutRequestDocumentNoSig("name-"+tag, "sess-"+tag)
		}
		if err != nil {
			return "build: " + err.Error()
		}
		doc.Root().CreateAttr("xmlns:app", "urn:example:app")
		doc.Root().CreateAttr("app:call", tag+strings.Repeat("-", n%37)) // documents of different lengths
		want, _ := doc.WriteToBytes()
		var u string
		if op == "redirectAuthn" {
			u, err = sp.BuildAuthURLRedirect("rs-"+tag, doc)
		} else {
			u, err = sp.BuildLogoutURLRedirect("rs-"+tag, doc)
		}
		if err != nil {
			return "url: " + err.Error()
		}
		o := &bObs{}
		analyseRedirect(in, sp, u, "rs-"+tag, want, o)
		if !(o.EndpointOK && o.RequestOK && o.RelayPresent && o.RelayOK && o.SigPresent && o.SigOK && o.VerifiedBy == "signSetter") {
			return fmt.Sprintf("redirect URL: %+v", *o)
		}
	case "postAuthn", "postLogoutResp":
		var doc *etree.Document
		var err error
		var body []byte
		if op == "postAuthn" {
			doc, err = sp.BuildAuthRequestDocumentNoSig()
		} else {
			doc, err = sp.BuildLogoutResponseDocumentNoSig(saml2.StatusCodeSuccess, "_irt-"+tag)
		}
		if err != nil {
			return "build: " + err.Error()
		}
		doc.Root().CreateAttr("xmlns:app", "urn:example:app")
		doc.Root().CreateAttr("app:call", tag+strings.Repeat("-", n%37))
		if n%2 == 1 {
			doc.WriteSettings = etree.WriteSettings{} // a document whose write settings are the caller's own
		}
		want, _ := doc.WriteToBytes()
		post := func() ([]byte, error) {
			if op == "postAuthn" {
				return sp.BuildAuthBodyPostFromDocument("rs-"+tag, doc)
			}
			return sp.BuildLogoutResponseBodyPostFromDocument("rs-"+tag, doc)
		}
		body, err = post()
		if err != nil {
			return "body: " + err.Error()
		}
		// the same call again, on the same document: the same page, and the document is still what it was
		if again, err2 := post(); err2 != nil || !bytes.Equal(again, body) {
			return "the identical call on the same document gives another page"
		}
		if after, _ := doc.WriteToBytes(); !bytes.Equal(after, want) {
			return "the document handed in was modified"
		}
		page := html.UnescapeString(string(body))
		if strings.Count(page, `value="`+base64.StdEncoding.EncodeToString(want)+`"`) != 1 || strings.Count(page, `value="rs-`+tag+`"`) != 1 {
			return "POST form does not carry this call's document and relay state"
		}
	case "metadata":
		md, err := sp.Metadata()
		if err != nil || md == nil || md.EntityID != sp.ServiceProviderIssuer || md.SPSSODescriptor == nil || len(md.SPSSODescriptor.KeyDescriptors) != 2 {
			return fmt.Sprint("metadata: ", err)
		}
		for _, kd := range md.SPSSODescriptor.KeyDescriptors {
			der, _ := base64.StdEncoding.DecodeString(kd.KeyInfo.X509Data.X509Certificates[0].Data)
			want := map[string]string{"signing": "signSetter", "encryption": "encField"}[kd.Use]
			if keyName(der) != want {
				return "metadata publishes " + keyName(der) + " for " + kd.Use
			}
		}
	default:
		ms := ccInbound()[op]
		if ms == nil {
			orch.Fatal("concur: unknown operation %q", op)
		}
		if bad, ok := ccBadAlone[op]; ok {
			return bad
		}
		m := ms[k%len(ms)]
		if got := ccFingerprint(sp, m.entry, m.enc); got != m.alone {
			return fmt.Sprintf("result %q, alone %q", got, m.alone)
		}
	}
	return ""
}

func (Concur) Run(c *orch.Case) *orch.Outcome {
	var in ccInput
	if json.Unmarshal(c.Input, &in) != nil {
		orch.Fatal("concur: bad case")
	}
	ccInbound()
	sched.Install()
	o := &ccObs{Calls: map[string]int{}, Bad: map[string]int{}, Ran: []string{}, Wrong: []string{}, CfgSame: true}
	if in.Mode == "parked" {
		ccParked(&in, o)
	} else if in.Mode == "cold" {
		ccCold(&in, o)
	} else {
		ccStress(&in, o, c.Seed)
	}
	for op, n := range o.Calls {
		if n > 0 {
			o.Ran = append(o.Ran, op)
		}
	}
	for op, n := range o.Bad {
		if n > 0 {
			o.Wrong = append(o.Wrong, op)
		}
	}
	sort.Strings(o.Ran)
	sort.Strings(o.Wrong)
	return &orch.Outcome{Obs: o, Replay: map[string]any{"note": o.Note, "calls": o.Calls, "wrong_results": o.Bad}}
}

// ccParked: a is held at the gate on a single processor, b runs entirely, a is released.
func ccParked(in *ccInput, o *ccObs) {
	prev := runtime.GOMAXPROCS(1)
	defer runtime.GOMAXPROCS(prev)
	sp := ccSP()
	if in.Gate == "sc.rlock" {
		sp.SigningContext() // the context exists already: a is held before the read-locked look-up
	}
	before := cfgDigest(sp)
	defer func() {
		if after := cfgDigest(sp); after != before {
			o.CfgSame = false
			o.Note += "configuration of the provider changed: " + diffDigest(before, after) + "; "
		}
	}()
	run := sched.NewRun(1)
	var noteA string
	run.Go(0, func(gate func(string)) { noteA = ccCall(sp, in.A, 0, 1) })
	for guard := 0; guard < 100; guard++ {
		at, ok := run.At(0)
		if !ok {
			sched.NoteStuck()
			o.Calls[in.A]++
			o.Bad[in.A]++
			o.Note += fmt.Sprintf("a=%s neither reached an observation point nor returned (b=%s, gate %s); ", in.A, in.B, in.Gate)
			return
		}
		if at == "exit" {
			break
		}
		if at == in.Gate && !o.Reached {
			o.Reached = true
			noteB := ccCallTimed(sp, in.B, 1, 2)
			o.Calls[in.B]++
			if noteB != "" {
				o.Bad[in.B]++
				o.Note += fmt.Sprintf("b=%s while a=%s is held at %s: %s; ", in.B, in.A, in.Gate, noteB)
			}
		}
		run.Release(0)
	}
	o.Calls[in.A]++
	if noteA != "" {
		o.Bad[in.A]++
		o.Note += fmt.Sprintf("a=%s held at %s while b=%s ran: %s; ", in.A, in.Gate, in.B, noteA)
	}
}

func ccStress(in *ccInput, o *ccObs, seed int64) {
	dur := 150 * time.Millisecond
	if orchTier() == "thorough" {
		dur = 400 * time.Millisecond
	}
	if len(in.Ops) > 4 {
		dur *= 4
	}
	ops := append([]string{}, in.Ops...)
	sort.Strings(ops)
	g := 4 * runtime.GOMAXPROCS(0)
	if g < 2*len(ops) {
		g = 2 * len(ops)
	}
	shared := ccSP()
	before := cfgDigest(shared)
	defer func() {
		if after := cfgDigest(shared); in.Shared && after != before {
			o.CfgSame = false
			o.Note += "configuration of the shared provider changed: " + diffDigest(before, after) + "; "
		}
	}()
	sched.YieldAtPoints.Store(true)
	defer sched.YieldAtPoints.Store(false)
	var mu sync.Mutex
	var wg sync.WaitGroup
	abandoned := false
	deadline := time.Now().Add(dur)
	for j := 0; j < g; j++ {
		wg.Add(1)
		go func(j int) {
			defer wg.Done()
			sp := shared
			if !in.Shared {
				sp = ccSP()
			}
			op := ops[j%len(ops)]
			calls, bad, first := 0, 0, ""
			for n := 0; time.Now().Before(deadline) || n == 0; n++ {
				if note := ccCall(sp, op, j%ccK, j*100000+n); note != "" {
					bad++
					if first == "" {
						first = note
					}
				}
				calls++
			}
			mu.Lock()
			if abandoned {
				mu.Unlock()
				return
			}
			o.Calls[op] += calls
			o.Bad[op] += bad
			if first != "" && len(o.Note) < 600 {
				o.Note += op + ": " + first + "; "
			}
			mu.Unlock()
		}(j)
	}
	// a call that never returns is a wrong result too (and must not hang the check)
	done := make(chan struct{})
	go func() { wg.Wait(); close(done) }()
	select {
	case <-done:
	case <-time.After(dur + sched.DefaultTimeout()):
		sched.NoteStuck()
		mu.Lock()
		abandoned = true
		for _, op := range ops {
			o.Calls[op]++
			o.Bad[op]++
		}
		o.Note += "some calls did not return; "
		mu.Unlock()
	}
}

// ccCallTimed is ccCall that gives up waiting (the call keeps running in its goroutine).
func ccCallTimed(sp *saml2.SAMLServiceProvider, op string, k, n int) string {
	res := make(chan string, 1)
	go func() { res <- ccCall(sp, op, k, n) }()
	select {
	case r := <-res:
		return r
	case <-time.After(sched.DefaultTimeout()):
		sched.NoteStuck()
		return "the call did not return"
	}
}

// ccCold: the operations are the first calls into the library in a fresh process (several processes in a row).
func ccCold(in *ccInput, o *ccObs) {
	n := 4
	if orchTier() == "thorough" {
		n = 30
	}
	world.Get()
	outboundKeys()
	ccInbound()
	shareKeys()
	mode := "private"
	if in.Shared {
		mode = "shared"
	}
	for k := 0; k < n; k++ {
		var res ColdOpsOut
		runCold(&res, "ops", strings.Join(in.Ops, ","), mode)
		for op, c := range res.Ran {
			o.Calls[op] += c
		}
		for op, c := range res.Wrong {
			o.Bad[op] += c
		}
		if res.Note != "" && len(o.Note) < 600 {
			o.Note += "cold start: " + res.Note
		}
	}
}

func diffDigest(a, b string) string {
	as, bs := strings.Split(a, ";"), strings.Split(b, ";")
	for i := range as {
		if i >= len(bs) || as[i] != bs[i] {
			other := ""
			if i < len(bs) {
				other = bs[i]
			}
			return as[i] + " -> " + other
		}
	}
	return "(longer)"
}

func (Concur) Corrupt(c *orch.Case, o *orch.Outcome) (any, string, bool) {
	ob := o.Obs.(*ccObs)
	if len(ob.Ran) == 0 {
		return nil, "", false
	}
	cp := *ob
	cp.Wrong = []string{ob.Ran[0]}
	return &cp, "C17", true
}

var _ = bytes.Equal
var _ = dsig.ErrMissingSignature
