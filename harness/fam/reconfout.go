package fam

import (
	"encoding/base64"
	"encoding/json"
	"encoding/xml"
	"fmt"
	"time"

	saml2 "github.com/russellhaering/gosaml2"
	dsig "github.com/russellhaering/goxmldsig"

	"verifharness/orch"
	"verifharness/pyproj"
	"verifharness/world"
)

// ReconfOut replays histories of spec/ReconfOut.tla: builders and metadata on ONE service provider
// that is re-configured between calls.
type ReconfOut struct{}

type roInput struct {
	H [][3]string `json:"h"`
}
type roObs struct {
	Steps []map[string]string `json:"steps"`
	Note  string              `json:"note"`
}

func (ReconfOut) Name() string { return "ReconfOut" }
func (ReconfOut) MC(tier string) (string, string) {
	return "MC_ReconfOut.tla", "MC_ReconfOut_" + tier + ".cfg"
}
func (ReconfOut) Trace() (string, string)         { return "Trace_ReconfOut.tla", "Trace_ReconfOut.cfg" }
func (ReconfOut) Cap(tier string) int             { return 0 }
func (ReconfOut) Layouts(tier string) int         { return 1 }
func (ReconfOut) Extra(string, int64) []orch.Case { return nil }

var roVals = map[string]map[string]string{
	"acs": {"u1": "https://sp.example.com/acs/one", "u2": "https://sp.example.com/acs/two"},
	"fmt": {"f1": saml2.NameIdFormatPersistent, "f2": saml2.NameIdFormatTransient},
}
var roClock = map[string]time.Time{"t1": world.Now, "t2": world.Now.Add(36 * time.Hour)}
var roRac = map[string]*saml2.RequestedAuthnContext{
	"x": {Comparison: "exact", Contexts: []string{"urn:ctx:x1"}},
	"y": {Comparison: "minimum", Contexts: []string{"urn:ctx:y1", "urn:ctx:y2"}},
}

func roToken(field, val string) string {
	for k, v := range roVals[field] {
		if v == val {
			return k
		}
	}
	return "?" + val
}

func (ReconfOut) Run(c *orch.Case) *orch.Outcome {
	var in roInput
	if json.Unmarshal(c.Input, &in) != nil {
		orch.Fatal("reconfout: bad case")
	}
	ks := outboundKeys()
	sp := world.Get().NewSP()
	sp.SPKeyStore = nil
	set := func(f, v string) {
		switch f {
		case "rac":
			if v == "nil" {
				sp.RequestedAuthnContext = nil
			} else {
				r := *roRac[v]
				r.Contexts = append([]string{}, r.Contexts...)
				sp.RequestedAuthnContext = &r
			}
		case "acs":
			sp.AssertionConsumerServiceURL = roVals["acs"][v]
		case "fmt":
			sp.NameIdFormat = roVals["fmt"][v]
		case "enckey":
			k := ks[map[string]string{"k1": "encSetter", "k2": "signSetter"}[v]]
			sp.SetSPKeyStore(&saml2.KeyStore{Signer: k.Key, Cert: k.DER})
		case "clock":
			sp.Clock = dsig.NewFakeClockAt(roClock[v])
		}
	}
	for f, v := range map[string]string{"rac": "nil", "acs": "u1", "fmt": "f1", "enckey": "k1", "clock": "t1"} {
		set(f, v)
	}
	o := &roObs{Steps: []map[string]string{}}
	blank := func() map[string]string {
		return map[string]string{"rac": "-", "acs": "-", "fmt": "-", "enckey": "-", "clock": "-", "signkey": "-"}
	}
	clockTok := func(s string, add time.Duration) string {
		t, err := time.Parse(time.RFC3339Nano, s)
		if err != nil {
			return "?" + s
		}
		for k, v := range roClock {
			if d := v.Add(add).Sub(t); d >= 0 && d < time.Second {
				return k
			}
		}
		return "?" + s
	}
	for _, op := range in.H {
		st := blank()
		if op[0] == "set" {
			set(op[1], op[2])
			o.Steps = append(o.Steps, st)
			continue
		}
		func() {
			defer func() {
				if r := recover(); r != nil {
					o.Note = fmt.Sprint("panic: ", r)
				}
			}()
			switch op[1] {
			case "authn", "logoutReq":
				var b []byte
				if op[1] == "authn" {
					doc, err := sp.BuildAuthRequestDocumentNoSig()
					if err != nil {
						o.Note = err.Error()
						return
					}
					b, _ = doc.WriteToBytes()
				} else {
					doc, err := sp.BuildLogoutRequestDocumentNoSig("alice@example.com", "sess-1")
					if err != nil {
						o.Note = err.Error()
						return
					}
					b, _ = doc.WriteToBytes()
				}
				root, perr, err := pyproj.XML(b)
				if err != nil {
					orch.Fatal("expat worker: %v", err)
				}
				if perr != "" {
					o.Note = perr
					return
				}
				ii, _ := root.Attr("IssueInstant")
				st["clock"] = clockTok(ii, 0)
				if op[1] == "authn" {
					a, _ := root.Attr("AssertionConsumerServiceURL")
					st["acs"] = roToken("acs", a)
					if np := root.Child("NameIDPolicy"); np != nil {
						f, _ := np.Attr("Format")
						st["fmt"] = roToken("fmt", f)
					}
					st["rac"] = "nil"
					if rc := root.Child("RequestedAuthnContext"); rc != nil {
						cmp, _ := rc.Attr("Comparison")
						st["rac"] = "?" + cmp
						for k, want := range roRac {
							if cmp == want.Comparison && len(rc.Children) == len(want.Contexts) {
								ok := true
								for i, ch := range rc.Children {
									ok = ok && ch.Text == want.Contexts[i]
								}
								if ok {
									st["rac"] = k
								}
							}
						}
					}
				} else {
					if n := root.Child("NameID"); n != nil {
						f, _ := n.Attr("Format")
						st["fmt"] = roToken("fmt", f)
					}
				}
			case "metadata":
				md, err := sp.Metadata()
				if err != nil {
					o.Note = err.Error()
					return
				}
				b, _ := xml.Marshal(md)
				root, perr, err := pyproj.XML(b)
				if err != nil {
					orch.Fatal("expat worker: %v", err)
				}
				if perr != "" {
					o.Note = perr
					return
				}
				vu, _ := root.Attr("validUntil")
				st["clock"] = clockTok(vu, 7*24*time.Hour)
				if d := root.Child("SPSSODescriptor"); d != nil {
					for _, ch := range d.Children {
						switch ch.Name {
						case "AssertionConsumerService":
							l, _ := ch.Attr("Location")
							st["acs"] = roToken("acs", l)
						case "KeyDescriptor":
							if use, _ := ch.Attr("use"); use == "encryption" || use == "signing" {
								which := map[string]string{"encryption": "enckey", "signing": "signkey"}[use]
								der := []byte{}
								if ki := ch.Child("KeyInfo"); ki != nil {
									if xd := ki.Child("X509Data"); xd != nil {
										if xc := xd.Child("X509Certificate"); xc != nil {
											der, _ = base64.StdEncoding.DecodeString(xc.Text)
										}
									}
								}
								st[which] = map[string]string{"encSetter": "k1", "signSetter": "k2"}[keyName(der)]
								if st[which] == "" {
									st[which] = "?" + keyName(der)
								}
							}
						}
					}
				}
			}
		}()
		o.Steps = append(o.Steps, st)
	}
	return &orch.Outcome{Obs: o, Replay: map[string]any{"history": in.H, "note": o.Note}}
}

func (ReconfOut) Corrupt(c *orch.Case, o *orch.Outcome) (any, string, bool) {
	ob := o.Obs.(*roObs)
	n := len(ob.Steps)
	if n == 0 || ob.Steps[n-1]["clock"] == "-" {
		return nil, "", false
	}
	cp := roObs{}
	for _, s := range ob.Steps {
		m := map[string]string{}
		for k, v := range s {
			m[k] = v
		}
		cp.Steps = append(cp.Steps, m)
	}
	cp.Steps[n-1]["clock"] = "stale"
	return &cp, "C15", true
}
