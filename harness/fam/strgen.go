package fam

import (
	"math/rand"
	"strings"
)

// Alphabets of the XML character repertoire, grouped by what tends to break code.
var (
	alAscii  = []rune("abcdefghijklmnopqrstuvwxyzABCDEFGHIJKLMNOPQRSTUVWXYZ0123456789-_.@:/")
	alMarkup = []rune("<>&\"'")
	alSpace  = []rune(" \t\n\r")
	alNonAsc = []rune("éßñçüøλж中文日本語한국어😀🚀𝔘 ​́ ")
	alPunct  = []rune("!#$%()*+,;=?[]^`{|}~\\")
	// the edges of XML's Char production (#x20-#xD7FF | #xE000-#xFFFD | #x10000-#x10FFFF) and characters that text
	// processing tends to special-case: replacement character, object replacement, BOM, NEL, line separator
	alEdges = []rune{0xD7FF, 0xE000, 0xFFFD, 0xFFFC, 0x10000, 0x10FFFF, 0xFEFF, 0x85, 0x2028, 0x7F, 0xA0}
)

// GenXMLString draws a string over the XML character repertoire. kind selects the
// mix: 0 plain, 1 markup-heavy, 2 whitespace-heavy (leading/trailing/inner), 3 non-ASCII,
// 4 everything, 5 tricky fixed fragments.
func GenXMLString(rng *rand.Rand, kind, maxLen int) string {
	if maxLen < 1 {
		maxLen = 1
	}
	n := 1 + rng.Intn(maxLen)
	pick := func(al []rune) rune { return al[rng.Intn(len(al))] }
	var sb strings.Builder
	switch kind {
	case 5:
		frags := []string{"]]>", "<!--", "-->", "&amp;", "&#x41;", "<![CDATA[", "</saml:NameID>", "<?pi?>", "\"/>", "'", "&lt;script&gt;", "  ", "\r\n", "\t", "%0A", "a=b&c=d", "é́"}
		for i := 0; i < 1+rng.Intn(4); i++ {
			sb.WriteString(frags[rng.Intn(len(frags))])
			sb.WriteRune(pick(alAscii))
		}
		return sb.String()
	}
	for i := 0; i < n; i++ {
		var al []rune
		switch kind {
		case 0:
			al = alAscii
		case 1:
			al = [][]rune{alMarkup, alAscii, alPunct}[rng.Intn(3)]
		case 2:
			al = [][]rune{alSpace, alAscii}[rng.Intn(2)]
		case 3:
			al = [][]rune{alNonAsc, alAscii, alEdges}[rng.Intn(3)]
		default:
			al = [][]rune{alAscii, alMarkup, alSpace, alNonAsc, alPunct, alEdges}[rng.Intn(6)]
		}
		sb.WriteRune(pick(al))
	}
	s := sb.String()
	if kind == 2 && rng.Intn(2) == 0 {
		s = " " + s + "\n"
	}
	return s
}

// GenAnyXMLString picks the kind at random too.
func GenAnyXMLString(rng *rand.Rand, maxLen int) string {
	return GenXMLString(rng, rng.Intn(6), maxLen)
}

// GenAttrXMLString is GenAnyXMLString for values that end up in XML attributes; the
// sequence "]]>" is kept only rarely there (it triggers a known finding that would
// otherwise mask one case in seven).
func GenAttrXMLString(rng *rand.Rand, maxLen int) string {
	s := GenAnyXMLString(rng, maxLen)
	if strings.Contains(s, "]]>") && rng.Intn(40) != 0 {
		s = strings.ReplaceAll(s, "]]>", "]]")
	}
	return s
}
