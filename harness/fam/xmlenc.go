package fam

import (
	"crypto/x509"
	"bytes"
	"crypto/cipher"
	"crypto/des"
	"crypto/rand"
	"crypto/rsa"
	"crypto/tls"
	"encoding/json"
	"encoding/xml"
	"fmt"
	mrand "math/rand"
	"strings"
	"sync"
	"time"

	"github.com/beevik/etree"
	saml2 "github.com/russellhaering/gosaml2"
	"github.com/russellhaering/gosaml2/types"
	dsig "github.com/russellhaering/goxmldsig"

	"verifharness/idp"
	"verifharness/orch"
	"verifharness/world"
)

// Xmlenc concretises spec/Xmlenc.tla.
type Xmlenc struct{}

type xInput struct {
	Sub        string `json:"sub"`
	Alg        string `json:"alg"`
	Kt         string `json:"kt"`
	Dig        string `json:"dig"`
	Detached   bool   `json:"detached"`
	Recipient  string `json:"recipient"`
	Keycfg     string `json:"keycfg"`
	Validate   bool   `json:"validate"`
	Certform   string `json:"certform"`
	Shape      string `json:"shape"`
	Residue    int    `json:"residue"`
	Zeros      bool   `json:"zeros"`
	Rootsigned bool   `json:"rootsigned"`
	Alg2       string `json:"alg2"`
	Kt2        string `json:"kt2"`
	Dig2       string `json:"dig2"`
	Detached2  bool   `json:"detached2"`
}
type xCfg struct {
	Now int `json:"now"`
}
type xObs struct {
	Res  string `json:"res"`
	Dec  string `json:"dec"`
	Twin bool   `json:"twin"`
	Err  string `json:"err"`
}

func (Xmlenc) Name() string                    { return "Xmlenc" }
func (Xmlenc) MC(tier string) (string, string) { return "MC_Xmlenc.tla", "MC_Xmlenc_" + tier + ".cfg" }
func (Xmlenc) Trace() (string, string)         { return "Trace_Xmlenc.tla", "Trace_Xmlenc.cfg" }
func (Xmlenc) Cap(tier string) int             { return 0 }
func (Xmlenc) Layouts(tier string) int {
	if tier == "thorough" {
		return 2
	}
	return 1
}
func (Xmlenc) Extra(string, int64) []orch.Case { return nil }

var algURI = map[string]string{
	"aes128-gcm": idp.EncAES128GCM, "aes192-gcm": idp.EncAES192GCM, "aes256-gcm": idp.EncAES256GCM,
	"aes128-cbc": idp.EncAES128CBC, "aes256-cbc": idp.EncAES256CBC,
	"tripledes-cbc": "http://www.w3.org/2001/04/xmlenc#tripledes-cbc", "unknown": "http://www.w3.org/2001/04/xmlenc#camellia128-cbc", "empty": "",
}
var ktURI = map[string]string{"oaep": idp.KtOAEP, "oaep11": idp.KtOAEP11, "pkcs1": idp.KtPKCS1, "unknown": "http://www.w3.org/2001/04/xmlenc#rsa-kem", "empty": ""}
var digURI = map[string]string{"none": "", "sha1": idp.EdSHA1, "sha256": idp.EdSHA256, "sha512": idp.EdSHA512}

var (
	spWinOnce sync.Once
	spWin     *idp.KeyPair
)

// spWindowCert is the SP encryption certificate valid in [T0+2s, T0+6s].
func spWindowCert() *idp.KeyPair {
	spWinOnce.Do(func() {
		spWin = idp.Cert(idp.RSAKey("sp"), "sp-window", world.T0.Add(2*time.Second), world.T0.Add(6*time.Second))
	})
	return spWin
}

// rotatingStore serves an expired pair on the first fetch and a valid pair afterwards.
type rotatingStore struct {
	mu    sync.Mutex
	n     int
	first memStore
	then  memStore
}

func (r *rotatingStore) GetKeyPair() (*rsa.PrivateKey, []byte, error) {
	r.mu.Lock()
	defer r.mu.Unlock()
	r.n++
	if r.n == 1 {
		return r.first.GetKeyPair()
	}
	return r.then.GetKeyPair()
}

var (
	spExpOnce sync.Once
	spExp     *idp.KeyPair
)

var (
	spWallOnce sync.Once
	spWall     *idp.KeyPair
)

var (
	idpEternalOnce sync.Once
	idpEternal     *idp.KeyPair
)

// idpEternalCert: the IdP key under a certificate valid from Go's zero time to the year 9999.
func idpEternalCert() *idp.KeyPair {
	idpEternalOnce.Do(func() {
		idpEternal = idp.Cert(world.Get().IdpA.Key, "idp-eternal", time.Time{}, time.Date(9999, 12, 31, 0, 0, 0, 0, time.UTC))
	})
	return idpEternal
}

// spWallClockCert: the SP key under a certificate valid from an hour before to an hour after the wall clock.
func spWallClockCert() *idp.KeyPair {
	spWallOnce.Do(func() {
		spWall = idp.Cert(idp.RSAKey("sp"), "sp-wallclock", time.Now().Add(-time.Hour), time.Now().Add(time.Hour))
	})
	return spWall
}

// spExpiredCert: another SP key whose certificate expired before T0.
func spExpiredCert() *idp.KeyPair {
	spExpOnce.Do(func() {
		spExp = idp.Cert(idp.RSAKey("sp-old"), "sp-expired", world.T0.Add(-48*time.Hour), world.T0.Add(-24*time.Hour))
	})
	return spExp
}

var (
	reissueMu sync.Mutex
	reissued  = map[string][]byte{}
)

// reissuedCert returns another certificate over the same RSA key as the SP's (different subject and validity).
func reissuedCert(pub *rsa.PublicKey) []byte {
	reissueMu.Lock()
	defer reissueMu.Unlock()
	key := pub.N.String()
	if d, ok := reissued[key]; ok {
		return d
	}
	for _, name := range []string{"sp", "sp-old"} {
		k := idp.RSAKey(name)
		if k.PublicKey.N.Cmp(pub.N) == 0 {
			d := idp.Cert(k, "sp-reissued", world.T0.Add(-72*time.Hour), world.T0.Add(-48*time.Hour)).DER
			reissued[key] = d
			return d
		}
	}
	orch.Fatal("xmlenc: no private key known for the SP public key")
	return nil
}

// memStore is an X509KeyStore that is not a TLSCertKeyStore.
type memStore struct {
	key  *rsa.PrivateKey
	cert []byte
}

func (m memStore) GetKeyPair() (*rsa.PrivateKey, []byte, error) { return m.key, m.cert, nil }

func encOptsFor(in *xInput, rng *mrand.Rand, spCert []byte, pub *rsa.PublicKey) idp.EncOpts {
	alg := algURI[in.Alg]
	realAlg := alg
	if in.Alg == "tripledes-cbc" || in.Alg == "unknown" || in.Alg == "empty" {
		realAlg = idp.EncAES128CBC
	}
	kt := ktURI[in.Kt]
	realKt := kt
	if in.Kt == "unknown" || in.Kt == "empty" {
		realKt = idp.KtOAEP
	}
	o := idp.EncOpts{DataAlg: realAlg, KeyTransport: realKt, Digest: digURI[in.Dig], Detached: in.Detached, Pub: pub}
	if realAlg != alg {
		o.AlgAttr = &alg
	}
	if realKt != kt {
		o.KtAttr = &kt
	}
	switch in.Recipient {
	case "match":
		o.Recipient = spCert
	case "oldkey":
		old := world.Get().SP2
		o.Recipient, o.Pub = old.DER, &old.Key.(*rsa.PrivateKey).PublicKey
	case "samekey":
		o.Recipient = reissuedCert(pub)
	case "mismatch":
		o.Recipient = world.Get().SP2.DER
	}
	rnd := func(n int) []byte { b := make([]byte, n); rand.Read(b); return b }
	switch in.Shape {
	case "empty":
		o.RawCipher = []byte{}
	case "lt_nonce":
		o.RawCipher = rnd(5)
	case "eq_nonce":
		o.RawCipher = rnd(12)
	case "lt_tag":
		o.RawCipher = rnd(20)
	case "iv_only":
		o.RawCipher = rnd(16)
	case "not_multiple":
		o.RawCipher = rnd(39)
	case "pad_zero":
		// pad count 0; the filler octets are fixed (a random filler is, once in 256, itself a valid count)
		o.MutatePlain = func(p []byte) []byte {
			for i := 4; i < len(p)-1 && len(p) == 16; i++ {
				p[i] = 0xEE
			}
			p[len(p)-1] = 0
			return p
		}
	case "pad_big":
		o.MutatePlain = func(p []byte) []byte { p[len(p)-1] = 255; return p }
	case "all_zero":
		o.MutatePlain = func(p []byte) []byte { return make([]byte, 16) }
	case "pad_then_zeros": // one block: a small pad count followed by zero octets (what remains after zero-trimming is shorter than the count)
		o.MutatePlain = func(p []byte) []byte {
			b := make([]byte, 16)
			b[rng.Intn(3)] = byte(2 + rng.Intn(15))
			return b
		}
	case "pad_block_plus": // pad count one larger than the block size / than the data
		o.MutatePlain = func(p []byte) []byte { p[len(p)-1] = byte(len(p) + 1); return p }
	case "key_short":
		o.WrappedKey = rnd(15)
	case "key_garbage":
		o.RawWrapped = rnd(256)
	case "key_missing":
		o.OmitKeyCipher = true
	}
	return o
}

// tripleDES encrypts with real 3DES-CBC (what a sender naming that algorithm would do).
func tripleDES(plain []byte) (key, ct []byte) {
	key = make([]byte, 24)
	rand.Read(key)
	blk, _ := des.NewTripleDESCipher(key)
	pad := 8 - len(plain)%8
	p := append(append([]byte{}, plain...), bytes.Repeat([]byte{byte(pad)}, pad)...)
	iv := make([]byte, 8)
	rand.Read(iv)
	out := make([]byte, len(p))
	cipher.NewCBCEncrypter(blk, iv).CryptBlocks(out, p)
	return key, append(iv, out...)
}

func (Xmlenc) Run(c *orch.Case) *orch.Outcome {
	var cfg xCfg
	var in xInput
	if json.Unmarshal(c.Cfg, &cfg) != nil || json.Unmarshal(c.Input, &in) != nil {
		orch.Fatal("xmlenc: bad case")
	}
	w := world.Get()
	if cfg.Now == 99 {
		// at a clock that reads year 1 the IdP's certificate must be valid too, or nothing gets as far as decryption
		w2 := *w
		w2.IdpA = idpEternalCert()
		w = &w2
	}
	rng := mrand.New(mrand.NewSource(c.Seed))
	lay := layoutFor(rng, true)
	b := idp.NewBuilder(lay, c.Seed+1)
	o := &xObs{Res: "na", Dec: "na", Twin: true}

	spKP := w.SP
	if in.Sub == "bind" {
		spKP = spWindowCert()
		if cfg.Now == 99 {
			spKP = spWallClockCert() // see below: the provider's clock reads Go's zero time
		}
	}
	if in.Keycfg == "rotating" {
		spKP = spExpiredCert() // the sender encrypts to the certificate the store still serves first
	}
	spKey := spKP.Key.(*rsa.PrivateKey)

	// plaintext
	var plain []byte
	var assertionEl *etree.Element
	switch in.Sub {
	case "len":
		n := 16*rng.Intn(4) + in.Residue
		plain = make([]byte, n)
		rand.Read(plain)
		for i := range plain {
			if plain[i] == 0 {
				plain[i] = 1
			}
		}
		if in.Zeros {
			for i := n - 3; i < n; i++ {
				if i >= 0 {
					plain[i] = 0
				}
			}
		}
	case "shape":
		assertionEl = b.AssertionEl(world.Content("FA"), true)
		plain = idp.Serialize(assertionEl, lay, rng)
		switch in.Shape {
		case "pt_comment":
			plain = []byte("<!-- nothing but a comment -->")
		case "pt_decl":
			plain = []byte(`<?xml version="1.0" encoding="UTF-8"?>`)
		case "pt_space":
			plain = []byte(" \n\t ")
		case "pt_text":
			plain = []byte("just text")
		}
		if in.Shape == "pad_zero" || in.Shape == "pad_big" || in.Shape == "pad_block_plus" {
			plain = []byte("<x/>") // short, so that a bogus pad length exceeds the data
		}
	default:
		// the sender may encrypt the assertion's octets exactly as they stand in the Response, i.e. with namespace prefixes
		// that only the Response declares (the plaintext is then not a self-contained document)
		// (not under a Response signed with exclusive c14n: the library decodes the canonical form of the Response, in
		// which the declaration has moved from the root to the children that use it -- see DESIGN.md, observations)
		selfContained := !((lay.Prefix == 1 || lay.Prefix == 3) && (c.Seed/5)%2 == 1 && !in.Rootsigned)
		assertionEl = ownSigned(b, w, world.Content("GA1"), selfContained)
		plain = idp.Serialize(assertionEl, lay, rng)
	}

	eo := encOptsFor(&in, rng, spKP.DER, &spKey.PublicKey)
	if in.Sub == "trip" || in.Sub == "len" || in.Sub == "multi" {
		// ciphertext is opaque: one that happens to end in 0x00 or in white space is as good as any other
		switch (c.Seed / 3) % 4 {
		case 0:
			eo.LastOctet = new(byte)
		case 1:
			sp := byte(' ')
			eo.LastOctet = &sp
		case 2:
			eo.WrapLastOctet = new(byte)
		}
	}
	if in.Shape == "staleKey" {
		eo.SymKey = make([]byte, idp.KeyLen(eo.DataAlg))
		rand.Read(eo.SymKey)
		eo.Detached = false // the first assertion carries its key inline
	}
	if in.Alg == "tripledes-cbc" && (in.Shape == "ok" || strings.HasPrefix(in.Shape, "pt_")) {
		k, ct := tripleDES(plain)
		eo.SymKey, eo.RawCipher = k, ct
	}
	if in.Shape == "cipher_badb64" {
		eo.RawCipher = []byte("x")
	}
	ee, err := b.EncryptedAssertion(plain, eo)
	if err != nil {
		orch.Fatal("xmlenc: build: %v", err)
	}
	if in.Shape == "cipher_badb64" {
		for _, cv := range ee.FindElements("./EncryptedData/CipherData/CipherValue") {
			cv.SetText("@@not-base64@@")
		}
	}

	// direct call of the decryption routine
	if in.Sub != "bind" {
		func() {
			defer func() {
				if r := recover(); r != nil {
					o.Dec, o.Err = "panic", fmt.Sprint(r)
				}
			}()
			var ea types.EncryptedAssertion
			if err := xml.Unmarshal(idp.Plain(ee), &ea); err != nil {
				o.Dec, o.Err = "error", "unmarshal: "+err.Error()
				return
			}
			cert := &tls.Certificate{Certificate: [][]byte{spKP.DER}, PrivateKey: spKey}
			got, err := ea.DecryptBytes(cert)
			switch {
			case err != nil:
				o.Dec, o.Err = "error", err.Error()
			case bytes.Equal(got, plain):
				o.Dec = "ok"
			default:
				o.Dec = "wrong"
			}
		}()
		if in.Sub == "len" {
			return &orch.Outcome{Obs: o, Replay: map[string]any{"encrypted_assertion": string(idp.Plain(ee)), "plaintext_len": len(plain)}}
		}
	}

	// through the SP
	sp := w.NewSP()
	sp.Clock = dsig.NewFakeClockAt(world.T0.Add(time.Duration(cfg.Now) * 500 * time.Millisecond))
	if cfg.Now == 99 {
		sp.IDPCertificateStore = &dsig.MemoryX509CertificateStore{Roots: []*x509.Certificate{w.IdpA.Cert}}
		// clock position 99: the provider's clock reads time.Time{} (year 1), and the SP certificate is valid around the
		// machine's wall clock -- a library that falls back to the wall clock for a zero reading would find it valid
		sp.Clock = dsig.NewFakeClockAt(time.Time{})
	}
	sp.ValidateEncryptionCert = in.Validate
	certBytes := spKP.DER
	switch in.Certform {
	case "empty":
		certBytes = []byte{}
	case "garbage":
		certBytes = []byte("this is not DER")
	}
	sp.SPKeyStore = nil
	switch in.Keycfg {
	case "fieldTLS":
		ks := dsig.TLSCertKeyStore{Certificate: [][]byte{certBytes}, PrivateKey: spKey}
		if (c.Seed/16)%2 == 1 {
			ks.Leaf = spKP.Cert // a parsed leaf that may be out of step with Certificate[0]: the octets are what counts
		}
		sp.SPKeyStore = ks
	case "fieldMem":
		sp.SPKeyStore = memStore{spKey, certBytes}
	case "setter":
		sp.SetSPKeyStore(&saml2.KeyStore{Signer: spKey, Cert: certBytes})
	case "bothSame":
		sp.SPKeyStore = dsig.TLSCertKeyStore{Certificate: [][]byte{certBytes}, PrivateKey: spKey}
		sp.SetSPKeyStore(&saml2.KeyStore{Signer: spKey, Cert: certBytes})
	case "bothDiff":
		sp.SPKeyStore = dsig.TLSCertKeyStore{Certificate: [][]byte{w.SP2.DER}, PrivateKey: w.SP2.Key}
		sp.SetSPKeyStore(&saml2.KeyStore{Signer: spKey, Cert: certBytes})
	case "rotating":
		fresh := spWindowCert()
		sp.SPKeyStore = &rotatingStore{first: memStore{spKey, certBytes}, then: memStore{fresh.Key.(*rsa.PrivateKey), fresh.DER}}
	}

	var second, secondPlain *etree.Element
	if in.Sub == "multi" {
		in2 := in
		in2.Alg, in2.Kt, in2.Dig, in2.Detached = in.Alg2, in.Kt2, in.Dig2, in.Detached2
		secondPlain = ownSigned(b, w, world.Content("GA2"), true)
		var err error
		second, err = b.EncryptedAssertion(idp.Serialize(secondPlain, lay, rng), encOptsFor(&in2, rng, spKP.DER, &spKey.PublicKey))
		if err != nil {
			orch.Fatal("xmlenc: second: %v", err)
		}
	}
	if in.Shape == "staleKey" {
		// a second EncryptedAssertion: detached key naming (and wrapped to) a foreign certificate, payload under the
		// FIRST assertion's session key -- decrypts only if state leaks from the first to the second
		sym := eo.SymKey
		so := idp.EncOpts{DataAlg: eo.DataAlg, KeyTransport: idp.KtOAEP, Detached: true, Recipient: w.SP2.DER,
			Pub: &w.SP2.Key.(*rsa.PrivateKey).PublicKey, SymKey: sym}
		fa := ownSigned(b, w, world.Content("GA2"), true)
		var err error
		second, err = b.EncryptedAssertion(idp.Plain(fa), so)
		if err != nil {
			orch.Fatal("xmlenc: second: %v", err)
		}
	}
	build := func(kid *etree.Element) string {
		bb := idp.NewBuilder(lay, c.Seed+3)
		root := bb.ResponseEl(genuineRoot())
		kid = kid.Copy()
		root.AddChild(kid)
		// where the namespace of the EncryptedAssertion element is declared is the sender's business: on the element
		// (as built), only on the Response (prefix), or as the Response's default namespace with the element unprefixed
		if kid.Tag == "EncryptedAssertion" && kid.Space != "" && root.Space != "" && in.Sub != "shape" {
			switch (c.Seed / 8) % 3 {
			case 1:
				kid.RemoveAttr("xmlns:" + kid.Space)
				root.CreateAttr("xmlns:"+kid.Space, idp.NSAssertion)
			case 2:
				kid.RemoveAttr("xmlns:" + kid.Space)
				kid.Space = ""
				root.CreateAttr("xmlns", idp.NSAssertion)
			}
		}
		if second != nil && kid.Tag == "EncryptedAssertion" {
			root.AddChild(second.Copy())
		} else if secondPlain != nil {
			root.AddChild(secondPlain.Copy())
		}
		if in.Rootsigned {
			mustSign(root, idp.DefaultSig(w.IdpA.Key, w.IdpA.DER))
		}
		return idp.Encode(idp.Serialize(root, lay, mrand.New(mrand.NewSource(c.Seed+4))), c.Seed%2 == 0)
	}
	encDoc := build(ee)
	eobs := observeSSO(sp, encDoc)
	o.Res = eobs.Res
	if eobs.Err != "" {
		o.Err = eobs.Err
	}
	if in.Sub != "shape" {
		// plaintext twin: the very same signed assertion, not encrypted
		tw, _ := func() (*etree.Element, error) {
			d := etree.NewDocument()
			if err := d.ReadFromBytes(plain); err != nil {
				return nil, err
			}
			return d.Root(), nil
		}()
		if tw != nil {
			pobs := observeSSO(sp, build(tw))
			a, _ := json.Marshal([]any{eobs.Res, eobs.RFlag, eobs.Assertions, eobs.Info})
			p, _ := json.Marshal([]any{pobs.Res, pobs.RFlag, pobs.Assertions, pobs.Info})
			o.Twin = string(a) == string(p) && pobs.Res == "accept"
			if !o.Twin {
				o.Err = fmt.Sprintf("enc=%s plain=%s (%s)", a, p, eobs.Err)
			}
		}
	}
	labels := []string{"keycfg=" + in.Keycfg, "shape=" + in.Shape, "sub=" + in.Sub}
	return &orch.Outcome{Obs: o, Labels: labels, Replay: map[string]any{"encoded_response": encDoc, "sp": describeSP(sp), "layout": lay, "keycfg": in.Keycfg}}
}

func (Xmlenc) Corrupt(c *orch.Case, o *orch.Outcome) (any, string, bool) {
	ob := o.Obs.(*xObs)
	var in xInput
	json.Unmarshal(c.Input, &in)
	if in.Sub != "trip" || ob.Dec != "ok" {
		return nil, "", false
	}
	cp := *ob
	cp.Dec = "wrong"
	return &cp, "C11", true
}
