//go:build verif

package fam

import (
	"bytes"
	"encoding/json"
	"fmt"
	"io"
	"os"
	"os/exec"
	"path/filepath"
	"sync"

	"github.com/beevik/etree"
	saml2 "github.com/russellhaering/gosaml2"
	dsig "github.com/russellhaering/goxmldsig"

	"verifharness/idp"
	"verifharness/orch"
	"verifharness/world"
)

// NewRecReader / Reads export the recording entropy source for cmd/verifcold.
func NewRecReader(inner io.Reader) *recReader { return &recReader{inner: inner} }
func (r *recReader) Reads() [][]byte {
	r.mu.Lock()
	defer r.mu.Unlock()
	return append([][]byte{}, r.reads...)
}

type ColdID struct {
	Kind string `json:"kind"`
	G    int    `json:"g"`
	ID   string `json:"id"`
}
type ColdIDsOut struct {
	IDs   []ColdID `json:"ids"`
	Reads [][]byte `json:"reads"`
}

func coldBuild(sp *saml2.SAMLServiceProvider, kind string) (*etree.Document, error) {
	switch kind {
	case "authn":
		return sp.BuildAuthRequestDocumentNoSig()
	case "logoutReq":
		return sp.BuildLogoutRequestDocumentNoSig("alice@example.com", "sess-1")
	}
	return sp.BuildLogoutResponseDocumentNoSig(saml2.StatusCodeSuccess, "_req-1")
}

// ColdIDs: g goroutines, released together, each build n unsigned messages (kinds rotating) on providers of their own.
func ColdIDs(g, n int) *ColdIDsOut {
	// providers without keys (none are needed for unsigned messages, and generating them would not be a cold start)
	sps := make([]*saml2.SAMLServiceProvider, g)
	for i := range sps {
		sps[i] = &saml2.SAMLServiceProvider{IdentityProviderSSOURL: world.IdpSSO, IdentityProviderSLOURL: world.IdpSLO, IdentityProviderIssuer: world.IdpIssuer,
			AssertionConsumerServiceURL: world.ACS, ServiceProviderSLOURL: world.SLO, ServiceProviderIssuer: world.SPIssuer, AudienceURI: world.Audience,
			Clock: dsig.NewFakeClockAt(world.Now), ForceAuthn: i%2 == 1, IsPassive: i%3 == 1}
	}
	out := &ColdIDsOut{}
	var mu sync.Mutex
	var wg sync.WaitGroup
	start := make(chan struct{})
	for j := 0; j < g; j++ {
		wg.Add(1)
		go func(j int) {
			defer wg.Done()
			<-start
			for i := 0; i < n; i++ {
				kind := []string{"authn", "logoutReq", "logoutResp"}[(i+j)%3]
				var doc *etree.Document
				var err error
				func() {
					defer func() {
						if r := recover(); r != nil {
							doc, err = nil, fmt.Errorf("panic: %v", r)
						}
					}()
					doc, err = coldBuild(sps[j], kind)
				}()
				id := "<no message>"
				if err == nil && doc != nil && doc.Root() != nil {
					id = doc.Root().SelectAttrValue("ID", "")
				}
				mu.Lock()
				out.IDs = append(out.IDs, ColdID{kind + "/cold-start", j, id})
				mu.Unlock()
			}
		}(j)
	}
	close(start)
	wg.Wait()
	return out
}

type ColdOpsOut struct {
	Ran   map[string]int `json:"ran"`
	Wrong map[string]int `json:"wrong"`
	Note  string         `json:"note"`
}

// ColdOps: every named Concur operation once from each of two goroutines, all released together, as the first calls
// into the library in this process (the inbound messages were prepared by the harness, not by the library).
func ColdOps(ops []string, shared bool) *ColdOpsOut {
	ccInbound()
	out := &ColdOpsOut{Ran: map[string]int{}, Wrong: map[string]int{}}
	sp := ccSP()
	var mu sync.Mutex
	var wg sync.WaitGroup
	start := make(chan struct{})
	for j := 0; j < 2*len(ops); j++ {
		wg.Add(1)
		go func(j int) {
			defer wg.Done()
			op := ops[j%len(ops)]
			mine := sp
			if !shared {
				mine = ccSP()
			}
			<-start
			note := ccCall(mine, op, j%ccK, j)
			mu.Lock()
			out.Ran[op]++
			if note != "" {
				out.Wrong[op]++
				if len(out.Note) < 400 {
					out.Note += op + ": " + note + "; "
				}
			}
			mu.Unlock()
		}(j)
	}
	close(start)
	wg.Wait()
	return out
}

var (
	coldOnce sync.Once
	coldBin  string
)

// coldBinary builds cmd/verifcold against the tree under check (once per run).
func coldBinary() string {
	coldOnce.Do(func() {
		hdir := os.Getenv("VERIF_HARNESS")
		if hdir == "" {
			hdir = filepath.Join(orch.VerifDir, "harness")
		}
		id := os.Getenv("VERIF_RUNID") // bin/check removes build/verifcold.<id>* when the run ends
		if id == "" {
			id = fmt.Sprint(os.Getpid())
		}
		coldBin = filepath.Join(orch.VerifDir, "build", "verifcold."+id)
		cmd := exec.Command("go", "build", "-tags", "verif", "-o", coldBin, "./cmd/verifcold")
		cmd.Dir = hdir
		if out, err := cmd.CombinedOutput(); err != nil {
			orch.Fatal("cannot build the cold-start runner: %v\n%s", err, out)
		}
	})
	return coldBin
}

// RemoveColdBinary is called at the end of a family that used it.
func removeColdBinary() {
	if coldBin != "" {
		os.Remove(coldBin)
		os.RemoveAll(coldBin + ".keys")
	}
}

// shareKeys lets the helper processes start with the keys this process has generated so far.
func shareKeys() {
	coldBinary()
	if err := idp.DumpKeys(coldBin + ".keys"); err != nil {
		orch.Fatal("cannot write the key directory for helper processes: %v", err)
	}
}

func runCold(v any, args ...string) {
	cmd := exec.Command(coldBinary(), args...)
	cmd.Env = append(os.Environ(), "VERIF_KEYDIR="+coldBin+".keys")
	var stdout, stderr bytes.Buffer
	cmd.Stdout, cmd.Stderr = &stdout, &stderr
	if err := cmd.Run(); err != nil {
		orch.Fatal("cold-start runner %v: %v\n%s", args, err, stderr.String())
	}
	if err := json.Unmarshal(stdout.Bytes(), v); err != nil {
		orch.Fatal("cold-start runner %v: bad output: %v", args, err)
	}
}
