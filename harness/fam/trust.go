package fam

import (
	"crypto/x509"
	"encoding/json"
	"fmt"
	"math/rand"
	"sync"
	"time"

	"github.com/beevik/etree"
	saml2 "github.com/russellhaering/gosaml2"
	dsig "github.com/russellhaering/goxmldsig"

	"verifharness/idp"
	"verifharness/orch"
	"verifharness/world"
)

// Trust concretises spec/Trust.tla: who vouches, under which store and clock.
type Trust struct{}

type tCfg struct {
	StoreA bool `json:"storeA"`
	StoreB bool `json:"storeB"`
	Now    int  `json:"now"`
}
type tInput struct {
	Kind   string `json:"kind"`
	Signed bool   `json:"signed"`
	By     string `json:"by"`
	Shows  string `json:"shows"`
	Tamper bool   `json:"tamper"`
	Pad    int    `json:"pad"`
}
type tObs struct {
	Res  string `json:"res"`
	Flag bool   `json:"flag"`
	N    int    `json:"n"`
	Err  string `json:"err"`
}

var (
	trustOnce  sync.Once
	trustCerts map[string]*idp.KeyPair
)

func trustKeys() map[string]*idp.KeyPair {
	trustOnce.Do(func() {
		trustCerts = map[string]*idp.KeyPair{
			"A": idp.Cert(idp.RSAKey("idpA"), "idpA-window", world.T0.Add(2*time.Second), world.T0.Add(6*time.Second)),
			"B": idp.Cert(idp.RSAKey("idpB"), "idpB-window", world.T0.Add(4*time.Second), world.T0.Add(8*time.Second)),
			"U": idp.Cert(idp.RSAKey("att"), "attacker", world.T0.Add(-time.Hour), world.T0.Add(time.Hour)),
		}
	})
	return trustCerts
}

func (Trust) Name() string                    { return "Trust" }
func (Trust) MC(tier string) (string, string) { return "MC_Trust.tla", "MC_Trust_" + tier + ".cfg" }
func (Trust) Trace() (string, string)         { return "Trace_Trust.tla", "Trace_Trust.cfg" }
func (Trust) Cap(tier string) int             { return 0 }
func (Trust) Layouts(tier string) int         { return 1 }
func (Trust) Extra(string, int64) []orch.Case { return nil }

func tamperText(root *etree.Element, tag string) bool {
	for _, e := range root.FindElements("//" + tag) {
		e.SetText("mallory@example.com")
		return true
	}
	return false
}

func (Trust) Run(c *orch.Case) *orch.Outcome {
	var cfg tCfg
	var in tInput
	if json.Unmarshal(c.Cfg, &cfg) != nil || json.Unmarshal(c.Input, &in) != nil {
		orch.Fatal("trust: bad case")
	}
	ks := trustKeys()
	rng := rand.New(rand.NewSource(c.Seed))
	lay := layoutFor(rng, true)
	b := idp.NewBuilder(lay, c.Seed+1)

	so := idp.DefaultSig(ks[in.By].Key, nil)
	so.ShowCerts = nil
	if in.Shows != "none" {
		so.ShowCerts = [][]byte{ks[in.Shows].DER}
	}
	so.SigAlg = idp.RSASigs[rng.Intn(4)]
	so.Digest = idp.AllDigests[rng.Intn(4)]
	// half of the alterations consist of nothing but an inserted comment, under a canonicalisation that keeps comments
	// (they are then part of what was signed)
	commentTamper := in.Tamper && (c.Seed/2)%2 == 1
	if commentTamper {
		so.C14N = []string{idp.C14NExcCom, idp.C14N11Com, idp.C14N10Com}[rng.Intn(3)]
	}
	alter := func(root *etree.Element, textTag string, attr [2]string) {
		if commentTamper {
			var target *etree.Element
			for _, e := range root.FindElements("//Issuer") {
				target = e
			}
			if target == nil {
				target = root
			}
			target.InsertChildAt(0, etree.NewComment(" inserted after signing "))
			return
		}
		if textTag != "" {
			nids := root.FindElements("//" + textTag)
			for i, e := range nids {
				if in.Pad > 0 && i != len(nids)-1 {
					continue // only the last assertion is tampered with
				}
				e.Child = nil
				e.SetText("mallory@example.com")
			}
			return
		}
		root.CreateAttr(attr[0], attr[1])
	}

	var root *etree.Element
	switch in.Kind {
	case "ssoRoot", "ssoAssert":
		root = b.ResponseEl(genuineRoot())
		var pads []*etree.Element
		for i := 0; i < in.Pad; i++ {
			ps := world.Content("GA2")
			ps.ID = fmt.Sprintf("_pad-%d", i+1)
			pe := b.AssertionEl(ps, false)
			root.AddChild(pe)
			pads = append(pads, pe)
		}
		a := b.AssertionEl(world.Content("GA1"), false)
		root.AddChild(a)
		b.Decorate(root)
		if in.Signed {
			if in.Kind == "ssoRoot" {
				mustSign(root, so)
			} else {
				for _, pe := range pads {
					mustSign(pe, so)
				}
				mustSign(a, so)
			}
		}
		if in.Tamper {
			alter(root, "NameID", [2]string{})
		}
	case "logoutReq":
		r := &idp.Response{Kind: "LogoutRequest", ID: "_lr-1", Version: idp.S("2.0"), IssueInstant: world.RFC(world.T0), Destination: idp.S(world.SLO),
			Issuer: idp.S(world.IdpIssuer), NameID: idp.S("alice@example.com"), SessionIndex: idp.S("sess-a1")}
		root = b.ResponseEl(r)
		b.Decorate(root)
		if in.Signed {
			mustSign(root, so)
		}
		if in.Tamper {
			alter(root, "NameID", [2]string{})
		}
	case "logoutResp":
		r := &idp.Response{Kind: "LogoutResponse", ID: "_lresp-1", Version: idp.S("2.0"), IssueInstant: world.RFC(world.T0), Destination: idp.S(world.SLO),
			Issuer: idp.S(world.IdpIssuer), InResponseTo: idp.S("_req-7"), HasStatus: true, StatusCode: idp.S(idp.StatusSuccess)}
		root = b.ResponseEl(r)
		b.Decorate(root)
		if in.Signed {
			mustSign(root, so)
		}
		if in.Tamper {
			alter(root, "", [2]string{"InResponseTo", "_req-8"})
		}
	}
	doc := idp.Serialize(root, lay, rng)
	enc := idp.Encode(doc, c.Seed%2 == 0)

	sp := world.Get().NewSP()
	var roots []*x509.Certificate
	if cfg.StoreA {
		roots = append(roots, ks["A"].Cert)
	}
	if cfg.StoreB {
		roots = append(roots, ks["B"].Cert)
	}
	if rng.Intn(2) == 0 && len(roots) == 2 {
		roots[0], roots[1] = roots[1], roots[0]
	}
	sp.IDPCertificateStore = &dsig.MemoryX509CertificateStore{Roots: roots}
	sp.Clock = dsig.NewFakeClockAt(world.T0.Add(time.Duration(cfg.Now) * 500 * time.Millisecond))

	o := &tObs{}
	func() {
		defer func() {
			if r := recover(); r != nil {
				o.Res, o.Err = "panic", fmt.Sprint(r)
			}
		}()
		switch in.Kind {
		case "ssoRoot", "ssoAssert":
			r, err := sp.ValidateEncodedResponse(enc)
			o.Res, o.Err = classify(r == nil, err)
			if o.Res == "accept" {
				o.N = len(r.Assertions)
				if in.Kind == "ssoRoot" {
					o.Flag = r.SignatureValidated
				} else {
					o.Flag = len(r.Assertions) > 0
					for _, a := range r.Assertions {
						o.Flag = o.Flag && a.SignatureValidated
					}
				}
			}
		case "logoutReq":
			r, err := sp.ValidateEncodedLogoutRequestPOST(enc)
			o.Res, o.Err = classify(r == nil, err)
			if o.Res == "accept" {
				o.Flag, o.N = r.SignatureValidated, 1
			}
		case "logoutResp":
			r, err := sp.ValidateEncodedLogoutResponsePOST(enc)
			o.Res, o.Err = classify(r == nil, err)
			if o.Res == "accept" {
				o.Flag, o.N = r.SignatureValidated, 1
			}
		}
	}()
	return &orch.Outcome{Obs: o, Replay: map[string]any{"encoded": enc, "document": string(doc), "sp": describeSP(sp), "layout": lay}}
}

func classify(nilResult bool, err error) (string, string) {
	switch {
	case nilResult && err == nil:
		return "nilnil", ""
	case !nilResult && err != nil:
		return "both", errClass(err)
	case err != nil:
		return "reject", errClass(err)
	}
	return "accept", ""
}

func (Trust) Corrupt(c *orch.Case, o *orch.Outcome) (any, string, bool) {
	ob := o.Obs.(*tObs)
	var in tInput
	json.Unmarshal(c.Input, &in)
	if ob.Res != "reject" || !in.Signed {
		return nil, "", false
	}
	return &tObs{Res: "accept", Flag: true}, "C02", true
}

var _ = saml2.ErrSaml{}
