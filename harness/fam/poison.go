package fam

import (
	"bytes"
	"compress/flate"
	"encoding/base64"
	"sync"

	saml2 "github.com/russellhaering/gosaml2"

	"verifharness/idp"
	"verifharness/orch"
	"verifharness/world"
)

// Poison hands the library one message that it must refuse (or, for "otherok", an unrelated one that
// it accepts) just before the call a case is about: a correct library is history independent, so no
// case can tell whether this happened. Pooled buffers, caches and other state kept between calls can.
var PoisonKinds = []string{"unterminated", "badblock", "garbage", "otherok", "bomb"}

var (
	poisonOnce sync.Once
	poisonIn   map[string]string
	poisonSP   *saml2.SAMLServiceProvider
)

func poisonInputs() map[string]string {
	poisonOnce.Do(func() {
		w := world.Get()
		b := idp.NewBuilder(idp.Layout{Prefix: 1}, 77)
		rs := genuineRoot()
		rs.ID, rs.InResponseTo = "_poison-resp", idp.S("_poison-request")
		rs.Issuer = idp.S("https://poison.example/idp")
		root := b.ResponseEl(rs)
		a := world.Content("GA2")
		a.ID = "_poison-assertion"
		root.AddChild(b.AssertionEl(a, false))
		mustSign(root, idp.DefaultSig(w.IdpA.Key, w.IdpA.DER))
		doc := idp.Plain(root)
		b64 := base64.StdEncoding.EncodeToString
		deflated := func(finish bool, tail []byte) string {
			var buf bytes.Buffer
			fw, _ := flate.NewWriter(&buf, flate.BestSpeed)
			fw.Write(doc)
			if finish {
				fw.Close()
			} else {
				fw.Flush() // the whole document is out, the stream is never terminated
			}
			buf.Write(tail)
			return b64(buf.Bytes())
		}
		var bomb bytes.Buffer
		fw, _ := flate.NewWriter(&bomb, flate.BestCompression)
		fw.Write(doc)
		fw.Write(bytes.Repeat([]byte(" "), 12<<20))
		fw.Close()
		poisonIn = map[string]string{
			"unterminated": deflated(false, nil),
			"badblock":     deflated(false, []byte{0x07, 0xff, 0xff}), // reserved block type after the complete document
			"garbage":      b64([]byte("\x00\x01 this is neither XML nor DEFLATE \xff\xfe")),
			"otherok":      deflated(true, nil),
			"bomb":         b64(bomb.Bytes()),
		}
		poisonSP = w.NewSP()
	})
	return poisonIn
}

func Poison(kind string) {
	in, ok := poisonInputs()[kind]
	if !ok {
		return
	}
	defer func() { recover() }()
	saml2.DecodeUnverifiedBaseResponse(in)
	saml2.DecodeUnverifiedLogoutResponse(in)
	poisonSP.ValidateEncodedResponse(in)
	poisonSP.ValidateEncodedLogoutResponsePOST(in)
}

func init() {
	// one case in three is preceded by a cheap poison call, whatever the family
	orch.Prelude = func(c *orch.Case) {
		if c.Seed%3 == 0 {
			Poison(PoisonKinds[int(uint64(c.Seed)/3%4)])
		}
	}
}
