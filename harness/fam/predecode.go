package fam

import (
	"bytes"
	"compress/flate"
	"encoding/base64"
	"encoding/json"
	"fmt"
	"io"
	"math/rand"
	"strings"

	"github.com/beevik/etree"
	saml2 "github.com/russellhaering/gosaml2"
	"github.com/russellhaering/gosaml2/types"

	"verifharness/idp"
	"verifharness/orch"
	"verifharness/world"
)

// Predecode concretises spec/Predecode.tla.
type Predecode struct{}

type pdVar struct {
	V     string `json:"v"`
	Field string `json:"field"`
	Pos   string `json:"pos"`
}
type pdInput struct {
	Kind    string `json:"kind"`
	Rootsig string `json:"rootsig"`
	Var     pdVar  `json:"var"`
	Deflate bool   `json:"deflate"`
	Before  string `json:"before"`
	Rawview   bool   `json:"rawview"`
	Transport string `json:"transport"`
}
type pdCfg struct {
	IssuerCfg bool `json:"issuerCfg"`
}
type pdObs struct {
	Res string `json:"res"`
	Pre preObs `json:"pre"`
	Err string `json:"err"`
	Got string `json:"got"`
}

func (Predecode) Name() string { return "Predecode" }
func (Predecode) MC(tier string) (string, string) {
	return "MC_Predecode.tla", "MC_Predecode_" + tier + ".cfg"
}
func (Predecode) Trace() (string, string) { return "Trace_Predecode.tla", "Trace_Predecode.cfg" }
func (Predecode) Cap(tier string) int     { return 0 }
func (Predecode) Layouts(tier string) int {
	if tier == "thorough" {
		return 4
	}
	return 1
}
func (Predecode) Extra(string, int64) []orch.Case { return nil }

func (Predecode) Run(c *orch.Case) *orch.Outcome {
	var cfg pdCfg
	var in pdInput
	if json.Unmarshal(c.Cfg, &cfg) != nil || json.Unmarshal(c.Input, &in) != nil {
		orch.Fatal("predecode: bad case")
	}
	w := world.Get()
	rng := rand.New(rand.NewSource(c.Seed))
	lay := layoutFor(rng, true)
	lay.Shuffle = false // attribute position is the subject here
	b := idp.NewBuilder(lay, c.Seed+1)
	var root, assertion *etree.Element
	if in.Kind == "sso" {
		root = b.ResponseEl(genuineRoot())
		assertion = b.AssertionEl(world.Content("GA1"), false)
		root.AddChild(assertion)
	} else {
		root = b.ResponseEl(logoutSpec("resp", "_lresp-1"))
	}
	evil := map[string]string{"ID": "_evil-id", "InResponseTo": "_evil-irt", "Destination": "https://evil.example/acs", "Version": "1.1", "Issuer": "https://evil.example/idp"}[in.Var.Field]
	put := func(a etree.Attr) {
		if in.Var.Pos == "first" {
			root.Attr = append([]etree.Attr{a}, root.Attr...)
		} else {
			root.Attr = append(root.Attr, a)
		}
	}
	putChild := func(e *etree.Element) {
		if in.Var.Pos == "first" {
			root.InsertChildAt(0, e)
		} else {
			root.AddChild(e)
		}
	}
	switch in.Var.V {
	case "qualified":
		root.CreateAttr("xmlns:shadow", "urn:example:shadow")
		put(etree.Attr{Space: "shadow", Key: in.Var.Field, Value: evil})
	case "casevariant":
		put(etree.Attr{Key: strings.ToLower(in.Var.Field), Value: evil})
		put(etree.Attr{Key: strings.ToUpper(in.Var.Field[:1]) + strings.ToLower(in.Var.Field[1:]) + "_", Value: evil})
	case "dupIssuer":
		is := b.El("a", "Issuer", true)
		is.SetText(evil)
		putChild(is)
	case "paddedIssuer":
		if is := root.SelectElement("Issuer"); is != nil {
			is.SetText("\n    " + is.Text() + "\n  ")
		}
	case "nestedIssuer":
		wr := b.Wrapper("Extensions")
		is := b.El("a", "Issuer", true)
		is.SetText(evil)
		wr.AddChild(is)
		putChild(wr)
	case "foreignIssuer":
		is := etree.NewElement("Issuer")
		is.Space = "shadow"
		is.CreateAttr("xmlns:shadow", "urn:example:shadow")
		is.SetText(evil)
		putChild(is)
	}
	b.Decorate(root)
	if in.Rootsig == "signed" {
		mustSign(root, idp.DefaultSig(w.IdpA.Key, w.IdpA.DER))
	} else if assertion != nil {
		mustSign(assertion, idp.DefaultSig(w.IdpA.Key, w.IdpA.DER))
	}
	doc := idp.Serialize(root, lay, rng)
	enc := idp.Encode(doc, in.Deflate)
	if in.Rawview {
		enc = base64.StdEncoding.EncodeToString(rawViewStream(in.Kind, doc))
	}
	switch in.Transport {
	case "nopad":
		// (trailing newlines after the root are added until the standard encoding has padding to lose)
		for n := 0; n < 8 && !strings.HasSuffix(enc, "="); n++ {
			doc = append(doc, '\n')
			enc = idp.Encode(doc, in.Deflate)
		}
		enc = strings.TrimRight(enc, "=")
	case "urlsafe":
		// (a trailing comment made of ">" and "?" is added until the standard encoding contains "+" or "/" to replace)
		for n := 0; n < 4 && !strings.ContainsAny(enc, "+/"); n++ {
			doc = append(doc, []byte("<!--?>?>?>-->")...)
			enc = idp.Encode(doc, in.Deflate)
		}
		enc = strings.NewReplacer("+", "-", "/", "_").Replace(enc)
	case "lines":
		var sb strings.Builder
		for i := 0; i < len(enc); i += 76 {
			j := i + 76
			if j > len(enc) {
				j = len(enc)
			}
			sb.WriteString(enc[i:j])
			sb.WriteString([]string{"\n", "\r\n"}[c.Seed%2])
		}
		enc = sb.String()
	}
	sp := w.NewSP()
	if !cfg.IssuerCfg {
		sp.IdentityProviderIssuer = ""
	}
	o := &pdObs{}
	iss := func(i *types.Issuer) string {
		if i == nil {
			return "<nil>"
		}
		return i.Value
	}
	func() {
		defer func() {
			if r := recover(); r != nil {
				o.Res, o.Err = "panic", fmt.Sprint(r)
			}
		}()
		if in.Kind == "sso" {
			var p *types.UnverifiedBaseResponse
			var perr error
			if in.Before != "none" {
				Poison(in.Before) // what the library saw last; then the pre-decode, then validation
				p, perr = saml2.DecodeUnverifiedBaseResponse(enc)
			}
			r, err := sp.ValidateEncodedResponse(enc)
			o.Res, o.Err = classify(r == nil, err)
			if in.Before == "none" {
				p, perr = saml2.DecodeUnverifiedBaseResponse(enc)
			}
			o.Pre.OK = perr == nil && p != nil
			if o.Res == "accept" && o.Pre.OK {
				o.Pre.Agree = p.ID == r.ID && p.InResponseTo == r.InResponseTo && p.Destination == r.Destination && p.Version == r.Version && iss(p.Issuer) == iss(r.Issuer)
				o.Got = fmt.Sprintf("validated %q %q %q %q %q / pre-decoded %q %q %q %q %q", r.ID, r.InResponseTo, r.Destination, r.Version, iss(r.Issuer), p.ID, p.InResponseTo, p.Destination, p.Version, iss(p.Issuer))
			}
		} else {
			var p *types.LogoutResponse
			var perr error
			if in.Before != "none" {
				Poison(in.Before)
				p, perr = saml2.DecodeUnverifiedLogoutResponse(enc)
			}
			r, err := sp.ValidateEncodedLogoutResponsePOST(enc)
			o.Res, o.Err = classify(r == nil, err)
			if in.Before == "none" {
				p, perr = saml2.DecodeUnverifiedLogoutResponse(enc)
			}
			o.Pre.OK = perr == nil && p != nil
			if o.Res == "accept" && o.Pre.OK {
				o.Pre.Agree = p.ID == r.ID && p.InResponseTo == r.InResponseTo && p.Destination == r.Destination && p.Version == r.Version && iss(p.Issuer) == iss(r.Issuer)
				o.Got = fmt.Sprintf("validated %q %q %q %q %q / pre-decoded %q %q %q %q %q", r.ID, r.InResponseTo, r.Destination, r.Version, iss(r.Issuer), p.ID, p.InResponseTo, p.Destination, p.Version, iss(p.Issuer))
			}
		}
	}()
	return &orch.Outcome{Obs: o, Replay: map[string]any{"encoded": enc, "document": string(doc), "sp": describeSP(sp)}}
}

// rawViewStream is a valid DEFLATE stream that inflates to (text +) doc while its OWN octets, read as XML, begin with
// a complete root element carrying other addressing values: a stored block whose header octets are printable
// (0x20 = not final, stored, padding bits free; LEN = 0x9EC3 so that NLEN = 0x613C spells "<a") and whose 40 643
// literal octets continue the tag, followed by doc compressed as usual.
func rawViewStream(kind string, doc []byte) []byte {
	tag := "Response"
	if kind != "sso" {
		tag = "LogoutResponse"
	}
	lit := []byte(":" + tag + ` xmlns:a="` + idp.NSProtocol + `" ID="_evil-id" InResponseTo="_evil-irt" Destination="https://evil.example/acs" Version="1.1"/>`)
	const n = 0x9EC3
	block := append(lit, bytes.Repeat([]byte(" "), n-len(lit))...)
	out := []byte{0x20, 0xC3, 0x9E, 0x3C, 0x61}
	out = append(out, block...)
	var buf bytes.Buffer
	fw, _ := flate.NewWriter(&buf, 6)
	fw.Write(doc)
	fw.Close()
	out = append(out, buf.Bytes()...)
	// the generator's own sanity: it is DEFLATE and ends with doc
	got, err := io.ReadAll(flate.NewReader(bytes.NewReader(out)))
	if err != nil || !bytes.HasSuffix(got, doc) {
		orch.Fatal("predecode: raw-view stream is not a DEFLATE stream of the document: %v", err)
	}
	return out
}

func (Predecode) Corrupt(c *orch.Case, o *orch.Outcome) (any, string, bool) {
	ob := o.Obs.(*pdObs)
	var in pdInput
	json.Unmarshal(c.Input, &in)
	if ob.Res != "accept" || !ob.Pre.Agree || in.Rootsig == "signed" {
		return nil, "", false
	}
	cp := *ob
	cp.Pre.Agree = false
	return &cp, "C20", true
}
