package fam

import (
	"encoding/json"
	"math/rand"

	"fmt"

	"github.com/beevik/etree"
	saml2 "github.com/russellhaering/gosaml2"
	"github.com/russellhaering/gosaml2/types"

	"verifharness/idp"
	"verifharness/orch"
	"verifharness/world"
)

// Logout concretises spec/Logout.tla.
type Logout struct{}

type lInput struct {
	Kind    string `json:"kind"`
	Entry   string `json:"entry"`
	Version string `json:"version"`
	Dest    string `json:"dest"`
	Issuer  string `json:"issuer"`
	Status  string `json:"status"`
	Sig     string `json:"sig"`
}
type lCfg struct {
	Skip      bool `json:"skip"`
	IssuerCfg bool `json:"issuerCfg"`
	SloCfg    bool `json:"sloCfg"`
}
type lObs struct {
	Res    string `json:"res"`
	Flag   bool   `json:"flag"`
	Fields string `json:"fields"`
	Err    ErrObs `json:"err"`
}

func (Logout) Name() string                    { return "Logout" }
func (Logout) MC(tier string) (string, string) { return "MC_Logout.tla", "MC_Logout_" + tier + ".cfg" }
func (Logout) Trace() (string, string)         { return "Trace_Logout.tla", "Trace_Logout.cfg" }
func (Logout) Cap(tier string) int             { return 0 }
func (Logout) Layouts(tier string) int {
	if tier == "thorough" {
		return 3
	}
	return 1
}
func (Logout) Extra(string, int64) []orch.Case { return nil }

func logoutSpec(kind, id string) *idp.Response {
	if kind == "req" {
		return &idp.Response{Kind: "LogoutRequest", ID: id, Version: idp.S("2.0"), IssueInstant: world.RFC(world.Now), Destination: idp.S(world.SLO),
			Issuer: idp.S(world.IdpIssuer), NameID: idp.S("alice@example.com"), SessionIndex: idp.S("sess-a1")}
	}
	return &idp.Response{Kind: "LogoutResponse", ID: id, Version: idp.S("2.0"), IssueInstant: world.RFC(world.Now), Destination: idp.S(world.SLO),
		Issuer: idp.S(world.IdpIssuer), InResponseTo: idp.S("_req-7"), HasStatus: true, StatusCode: idp.S(idp.StatusSuccess)}
}

func sp2s(p *string) string {
	if p == nil {
		return "<nil>"
	}
	return *p
}

func (Logout) Run(c *orch.Case) *orch.Outcome {
	var cfg lCfg
	var in lInput
	if json.Unmarshal(c.Cfg, &cfg) != nil || json.Unmarshal(c.Input, &in) != nil {
		orch.Fatal("logout: bad case")
	}
	w := world.Get()
	rng := rand.New(rand.NewSource(c.Seed))
	lay := layoutFor(rng, true)
	b := idp.NewBuilder(lay, c.Seed+1)

	var root *etree.Element
	var rootSpec, innerSpec *idp.Response
	if in.Kind == "sso" {
		root = b.ResponseEl(genuineRoot())
		root.AddChild(b.AssertionEl(world.Content("GA1"), false))
		b.Decorate(root)
		if in.Sig == "trusted" {
			mustSign(root, idp.DefaultSig(w.IdpA.Key, w.IdpA.DER))
		}
	} else {
		id := "_lr-outer"
		if in.Sig == "wrapSame" {
			id = "_lr-inner"
		}
		rootSpec = logoutSpec(in.Kind, id)
		nearMu.Lock() // applyRootFaults draws from the shared near-miss source
		nearRng = rand.New(rand.NewSource(c.Seed + 5))
		applyRootFaults(rootSpec, pRoot{Version: in.Version, Dest: in.Dest, Issuer: in.Issuer, Status: in.Status})
		nearMu.Unlock()
		if in.Dest == "other" {
			rootSpec.Destination = idp.S("https://evil.example/slo")
		}
		if in.Dest == "near" {
			rootSpec.Destination = idp.S(nearMiss(world.SLO, rng))
		}
		if in.Dest == "acs" {
			rootSpec.Destination = idp.S(world.ACS)
		}
		root = b.ResponseEl(rootSpec)
		if (c.Seed/4)%2 == 1 {
			claimValidated(root) // the sender claims, by attribute and by child elements, to have been validated
		}
		b.Decorate(root)
		switch in.Sig {
		case "trusted":
			mustSign(root, idp.DefaultSig(w.IdpA.Key, w.IdpA.DER))
		case "untrusted":
			mustSign(root, idp.DefaultSig(w.Att.Key, w.Att.DER))
		case "tampered":
			mustSign(root, idp.DefaultSig(w.IdpA.Key, w.IdpA.DER))
			if in.Kind == "req" {
				for _, e := range root.FindElements("./NameID") {
					e.Child = nil
					e.SetText("mallory@example.com")
				}
				rootSpec.NameID = idp.S("mallory@example.com")
			} else {
				root.CreateAttr("InResponseTo", "_req-8")
				rootSpec.InResponseTo = idp.S("_req-8")
			}
		case "relocated":
			sig, err := idp.BuildSignature(root, idp.DefaultSig(w.IdpA.Key, w.IdpA.DER))
			if err != nil {
				panic(err)
			}
			wr := b.Wrapper("Extensions")
			wr.AddChild(sig)
			idp.InsertSignature(root, wr, -1)
		case "wrapDiff", "wrapSame":
			innerSpec = logoutSpec(in.Kind, "_lr-inner")
			if in.Kind == "req" {
				innerSpec.NameID = idp.S("victim@example.com")
			} else {
				innerSpec.InResponseTo = idp.S("_req-victim")
			}
			ib := idp.NewBuilder(lay, c.Seed+2)
			inner := ib.ResponseEl(innerSpec)
			mustSign(inner, idp.DefaultSig(w.IdpA.Key, w.IdpA.DER))
			wr := b.Wrapper("Extensions")
			wr.AddChild(inner)
			if rng.Intn(2) == 0 {
				root.AddChild(wr)
			} else {
				idp.InsertSignature(root, wr, -1)
			}
		}
	}
	doc := idp.Serialize(root, lay, rng)
	enc := idp.Encode(doc, c.Seed%2 == 0)
	sp := spFor(c.Seed/2, fmt.Sprint("logout", cfg.Skip, cfg.IssuerCfg, cfg.SloCfg), func() *saml2.SAMLServiceProvider {
		sp := w.NewSP()
		sp.SkipSignatureValidation = cfg.Skip
		if !cfg.IssuerCfg {
			sp.IdentityProviderIssuer = ""
		}
		if !cfg.SloCfg {
			sp.ServiceProviderSLOURL = ""
		}
		return sp
	})
	o := &lObs{Fields: "none"}
	iss := func(i *types.Issuer) string {
		if i == nil {
			return "<nil>"
		}
		return i.Value
	}
	ident := func(id, irt, issuer, nameid, dest string) string {
		for name, s := range map[string]*idp.Response{"root": rootSpec, "inner": innerSpec} {
			if s == nil {
				continue
			}
			wantIrt, wantName, wantDest, wantIss := "", "<nil>", "", "<nil>"
			if s.InResponseTo != nil && s.Kind == "LogoutResponse" {
				wantIrt = *s.InResponseTo
			}
			if s.Kind == "LogoutRequest" {
				wantName = sp2s(s.NameID)
			}
			if s.Destination != nil {
				wantDest = *s.Destination
			}
			if s.Issuer != nil {
				wantIss = *s.Issuer
			}
			if id == s.ID && irt == wantIrt && issuer == wantIss && nameid == wantName && dest == wantDest {
				return name
			}
		}
		return "other"
	}
	func() {
		defer func() {
			if r := recover(); r != nil {
				o.Res = "panic"
			}
		}()
		switch in.Entry {
		case "req":
			r, err := sp.ValidateEncodedLogoutRequestPOST(enc)
			o.Res, _ = classify(r == nil, err)
			o.Err = projectErr(err)
			if o.Res == "accept" {
				o.Flag = r.SignatureValidated
				nid := "<nil>"
				if r.NameID != nil {
					nid = r.NameID.Value
				}
				o.Fields = ident(r.ID, "", iss(r.Issuer), nid, r.Destination)
			}
		case "resp":
			r, err := sp.ValidateEncodedLogoutResponsePOST(enc)
			o.Res, _ = classify(r == nil, err)
			o.Err = projectErr(err)
			if o.Res == "accept" {
				o.Flag = r.SignatureValidated
				o.Fields = ident(r.ID, r.InResponseTo, iss(r.Issuer), "<nil>", r.Destination)
			}
		case "sso":
			r, err := sp.ValidateEncodedResponse(enc)
			o.Res, _ = classify(r == nil, err)
			o.Err = projectErr(err)
			if o.Res == "accept" {
				o.Flag = r.SignatureValidated
				o.Fields = "other"
			}
		}
	}()
	return &orch.Outcome{Obs: o, Replay: map[string]any{"encoded": enc, "document": string(doc), "sp": describeSP(sp), "layout": lay}}
}

func (Logout) Corrupt(c *orch.Case, o *orch.Outcome) (any, string, bool) {
	ob := o.Obs.(*lObs)
	var in lInput
	json.Unmarshal(c.Input, &in)
	if ob.Res != "accept" || ob.Flag {
		return nil, "", false
	}
	cp := *ob
	cp.Flag = true
	return &cp, "C10", true
}
