//go:build verif

package fam

import (
	saml2 "github.com/russellhaering/gosaml2"

	"verifharness/idp"
	"verifharness/world"
)

// RaceSP is the shared instance used by cmd/verifrace.
func RaceSP() *saml2.SAMLServiceProvider { return scSP() }

// RaceOp runs one signing operation and reports whether the result is right.
func RaceOp(sp *saml2.SAMLServiceProvider, which int) bool {
	ok, _, _ := scOp(sp, which)
	return ok
}

type RaceIn struct {
	SSO, SSOEnc, LogoutReq, LogoutResp string
}

// RaceInputs prepares genuine inbound messages once.
func RaceInputs() *RaceIn {
	b := garbageBases()
	return &RaceIn{SSO: idp.Encode(b["sso"], false), SSOEnc: idp.Encode(b["ssoenc"], true), LogoutReq: idp.Encode(b["logoutReq"], false), LogoutResp: idp.Encode(b["logoutResp"], true)}
}

// RaceMix calls one of all public operations.
func RaceMix(sp *saml2.SAMLServiceProvider, in *RaceIn, i int) {
	defer func() { recover() }()
	switch i % 14 {
	case 0:
		sp.ValidateEncodedResponse(in.SSO)
	case 1:
		sp.RetrieveAssertionInfo(in.SSOEnc)
	case 2:
		sp.ValidateEncodedLogoutRequestPOST(in.LogoutReq)
	case 3:
		sp.ValidateEncodedLogoutResponsePOST(in.LogoutResp)
	case 4:
		sp.BuildAuthRequestDocument()
	case 5:
		if d, err := sp.BuildLogoutRequestDocumentNoSig("a", "s"); err == nil {
			sp.BuildLogoutURLRedirect("rs", d)
		}
	case 6:
		sp.BuildAuthBodyPost("relay")
	case 7:
		sp.Metadata()
	case 8:
		sp.MetadataWithSLO(5)
	case 9:
		sp.BuildLogoutResponseDocument(saml2.StatusCodeSuccess, "_r")
	case 10:
		if d, err := sp.BuildAuthRequestDocumentNoSig(); err == nil {
			sp.BuildAuthURLRedirect("rs", d)
		}
	case 11:
		sp.GetSigningCertBytes()
		sp.GetEncryptionCertBytes()
	case 12:
		saml2.DecodeUnverifiedBaseResponse(in.SSO)
	default:
		sp.SigningContext()
	}
	_ = world.ACS
}
