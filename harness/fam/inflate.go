package fam

import (
	"bytes"
	"compress/flate"
	"encoding/base64"
	"encoding/json"
	"fmt"
	"io"
	"math"
	"math/rand"
	"os"
	"runtime"
	"sort"
	"strings"
	"sync"

	saml2 "github.com/russellhaering/gosaml2"
	"github.com/russellhaering/gosaml2/types"

	"verifharness/idp"
	"verifharness/orch"
	"verifharness/world"
)

// Inflate concretises spec/Inflate.tla. It runs serially: allocation is measured.
type Inflate struct{}

type iInput struct {
	Entry string `json:"entry"`
	Pres  string `json:"pres"`
	Size  string `json:"size"`
	Good  bool   `json:"good"`
}
type iCfg struct {
	Limit string `json:"limit"`
}
type iObs struct {
	Res      string `json:"res"`
	Same     bool   `json:"same"`
	AllocKiB int    `json:"alloc_kib"`
	InputKiB int    `json:"input_kib"`
	Size     int    `json:"size_bytes"`
	Err      string `json:"err"`
}

func (Inflate) Name() string { return "Inflate" }
func (Inflate) MC(tier string) (string, string) {
	return "MC_Inflate.tla", "MC_Inflate_" + tier + ".cfg"
}
func (Inflate) Trace() (string, string)         { return "Trace_Inflate.tla", "Trace_Inflate.cfg" }
func (Inflate) Cap(tier string) int             { return 0 }
func (Inflate) Layouts(tier string) int         { return 1 }
func (Inflate) Extra(string, int64) []orch.Case { return nil }
func (Inflate) Serial() bool                    { return true }

var (
	inflMu    sync.Mutex
	inflDocs  = map[string][]byte{}
	inflBlobs = map[string]string{}
)

// inflateDoc returns the (cached) base document for an entry point.
func inflateDoc(entry string, good bool) []byte {
	key := fmt.Sprint(entry, good)
	inflMu.Lock()
	defer inflMu.Unlock()
	if d, ok := inflDocs[key]; ok {
		return d
	}
	w := world.Get()
	lay := idp.Layout{Prefix: 0}
	b := idp.NewBuilder(lay, 7)
	var doc []byte
	switch entry {
	case "validate", "info", "predecodeResp":
		rs := genuineRoot()
		rs.InResponseTo = idp.S("_req-1-" + nonASCIIRun)
		root := b.ResponseEl(rs)
		spec := world.Content("GA1")
		if !good && entry != "predecodeResp" {
			spec.Subject.Conf.Data.Recipient = idp.S("https://evil.example/acs")
		}
		root.AddChild(b.AssertionEl(spec, false))
		if !good && entry == "predecodeResp" {
			root = b.ResponseEl(logoutSpec("req", "_lr-1")) // another message kind: the pre-decoder refuses it
		}
		mustSign(root, idp.DefaultSig(w.IdpA.Key, w.IdpA.DER))
		doc = idp.Plain(root)
	case "predecodeLogout", "logoutResp":
		s := logoutSpec("resp", "_lresp-1")
		s.InResponseTo = idp.S("_req-7-" + nonASCIIRun)
		if !good {
			if entry == "predecodeLogout" {
				s = logoutSpec("req", "_lr-1")
			} else {
				s.Destination = idp.S("https://evil.example/slo")
			}
		}
		root := b.ResponseEl(s)
		mustSign(root, idp.DefaultSig(w.IdpA.Key, w.IdpA.DER))
		doc = idp.Plain(root)
	case "logoutReq":
		s := logoutSpec("req", "_lr-1")
		s.NameID = idp.S("alice-" + nonASCIIRun + "@example.com")
		if !good {
			s.Destination = idp.S("https://evil.example/slo")
		}
		root := b.ResponseEl(s)
		mustSign(root, idp.DefaultSig(w.IdpA.Key, w.IdpA.DER))
		doc = idp.Plain(root)
	}
	inflDocs[key] = doc
	return doc
}

// nonASCIIRun: several kilobytes of three-octet characters early in every document of this family, so that whatever
// block or buffer boundary a decompressor has falls inside a character
var nonASCIIRun = strings.Repeat("\u4e2d\u6587", 700)

var levelOf = map[string]int{"deflate1": 1, "deflate6": 6, "deflate9": 9, "stored": 0, "huffman": flate.HuffmanOnly}

// leadStreams returns valid DEFLATE streams of doc, one per distinct first octet that could be found:
// every compression level crossed with a flush after each of the first several hundred octets (the
// first block's header -- final bit, block type, and for dynamic blocks the literal-code count -- is
// what the first octet consists of), plus an empty stored block in front whose padding bits (ignored by
// RFC 1951) are set freely. Code that sniffs the leading octets of its input meets all of them.
func leadStreams(doc []byte) [][]byte {
	byLead := map[byte][]byte{}
	var buf bytes.Buffer
	var plainStream []byte
	for _, lvl := range []int{flate.HuffmanOnly, flate.DefaultCompression, 0, 1, 2, 3, 4, 5, 6, 7, 8, 9} {
		fw, _ := flate.NewWriter(&buf, lvl)
		max := 700
		if max > len(doc)-1 {
			max = len(doc) - 1
		}
		for cut := 0; cut <= max; cut++ {
			buf.Reset()
			fw.Reset(&buf)
			if cut > 0 {
				fw.Write(doc[:cut])
				fw.Flush()
			}
			fw.Write(doc[cut:])
			fw.Close()
			st := buf.Bytes()
			if plainStream == nil && cut == 0 && lvl == 6 {
				plainStream = append([]byte{}, st...)
			}
			if _, ok := byLead[st[0]]; !ok {
				byLead[st[0]] = append([]byte{}, st...)
			}
		}
	}
	for pad := 0; pad < 32; pad++ {
		lead := byte(pad << 3) // BFINAL=0, BTYPE=00 (stored), five padding bits
		if _, ok := byLead[lead]; !ok {
			byLead[lead] = append([]byte{lead, 0, 0, 0xff, 0xff}, plainStream...)
		}
	}
	keys := make([]int, 0, len(byLead))
	for k := range byLead {
		keys = append(keys, int(k))
	}
	sort.Ints(keys)
	out := make([][]byte, 0, len(keys))
	for _, k := range keys {
		out = append(out, byLead[byte(k)])
	}
	return out
}

var (
	leadMu    sync.Mutex
	leadCache = map[string][][]byte{}
)

func leadStreamsFor(key string, doc []byte) [][]byte {
	leadMu.Lock()
	defer leadMu.Unlock()
	if l, ok := leadCache[key]; ok {
		return l
	}
	l := leadStreams(doc)
	for _, st := range l { // the generator's own sanity: every stream inflates to doc
		got, err := io.ReadAll(flate.NewReader(bytes.NewReader(st)))
		if err != nil || !bytes.Equal(got, doc) {
			orch.Fatal("inflate: generated stream with lead octet %#x does not inflate to the document: %v", st[0], err)
		}
	}
	leadCache[key] = l
	return l
}

// present builds the encoded input: doc padded with trailing whitespace to total octets.
func present(entry string, good bool, total int, pres string) string {
	doc := inflateDoc(entry, good)
	if total < len(doc) {
		total = len(doc)
	}
	key := fmt.Sprint(entry, good, total, pres)
	inflMu.Lock()
	if s, ok := inflBlobs[key]; ok {
		inflMu.Unlock()
		return s
	}
	inflMu.Unlock()
	var out bytes.Buffer
	chunk := bytes.Repeat([]byte("\n"), 1<<20)
	writePadded := func(w interface{ Write([]byte) (int, error) }) {
		w.Write(doc)
		for left := total - len(doc); left > 0; {
			n := left
			if n > len(chunk) {
				n = len(chunk)
			}
			w.Write(chunk[:n])
			left -= n
		}
	}
	if pres == "raw" {
		writePadded(&out)
	} else {
		fw, _ := flate.NewWriter(&out, levelOf[pres])
		writePadded(fw)
		fw.Close()
	}
	s := base64.StdEncoding.EncodeToString(out.Bytes())
	if total > 1<<22 && pres != "raw" { // cache only the expensive bombs
		inflMu.Lock()
		inflBlobs[key] = s
		inflMu.Unlock()
	}
	return s
}

// presentMinimal: a bare root element of the kind the unverified decoder expects (good) or of the other kind, padded
// with trailing newlines to total octets.
func presentMinimal(entry string, good bool, total int, pres string) string {
	tag := "Response"
	if (entry == "predecodeLogout") == good {
		tag = "LogoutResponse"
	}
	// the padding is INSIDE the root element: losing the tail of the document cannot go unnoticed
	open := []byte(`<samlp:` + tag + ` xmlns:samlp="` + idp.NSProtocol + `" ID="_m" Version="2.0">`)
	end := []byte(`</samlp:` + tag + `>`)
	var out bytes.Buffer
	pad := bytes.Repeat([]byte("\n"), total-len(open)-len(end))
	if pres == "raw" {
		out.Write(open)
		out.Write(pad)
		out.Write(end)
	} else {
		fw, _ := flate.NewWriter(&out, levelOf[pres])
		fw.Write(open)
		fw.Write(pad)
		fw.Write(end)
		fw.Close()
	}
	return base64.StdEncoding.EncodeToString(out.Bytes())
}

// presentInner builds an unsigned Response whose EncryptedAssertion plaintext is a signed assertion
// padded with trailing whitespace to total octets and presented raw or DEFLATE-compressed.
func presentInner(good bool, total int, pres string) string {
	w := world.Get()
	b := idp.NewBuilder(idp.Layout{Prefix: 0}, 9)
	spec := world.Content("GA1")
	if !good {
		spec.Subject.Conf.Data.Recipient = idp.S("https://evil.example/acs")
	}
	ae := ownSigned(b, w, spec, true)
	doc := idp.Plain(ae)
	if total < len(doc) {
		total = len(doc)
	}
	var plain bytes.Buffer
	chunk := bytes.Repeat([]byte("\n"), 1<<20)
	writePadded := func(wr interface{ Write([]byte) (int, error) }) {
		wr.Write(doc)
		for left := total - len(doc); left > 0; {
			n := left
			if n > len(chunk) {
				n = len(chunk)
			}
			wr.Write(chunk[:n])
			left -= n
		}
	}
	if pres == "raw" {
		writePadded(&plain)
	} else {
		fw, _ := flate.NewWriter(&plain, levelOf[pres])
		writePadded(fw)
		fw.Close()
	}
	return innerResponse(plain.Bytes())
}

// innerDoc is the signed assertion that presentInner wraps (unpadded).
func innerDoc(good bool) []byte {
	w := world.Get()
	b := idp.NewBuilder(idp.Layout{Prefix: 0}, 9)
	spec := world.Content("GA1")
	if !good {
		spec.Subject.Conf.Data.Recipient = idp.S("https://evil.example/acs")
	}
	return idp.Plain(ownSigned(b, w, spec, true))
}

func innerResponse(plain []byte) string {
	b := idp.NewBuilder(idp.Layout{Prefix: 0}, 9)
	ee, err := b.EncryptedAssertion(plain, idp.EncOpts{DataAlg: idp.EncAES128GCM, KeyTransport: idp.KtOAEP, Pub: &idp.RSAKey("sp").PublicKey})
	if err != nil {
		orch.Fatal("inflate: encrypt: %v", err)
	}
	root := b.ResponseEl(genuineRoot())
	root.AddChild(ee)
	return base64.StdEncoding.EncodeToString(idp.Plain(root))
}

func callEntry(sp *saml2.SAMLServiceProvider, entry, enc string) (res, data, errc string) {
	res, data, errc, _ = callEntryText(sp, entry, enc)
	return
}

// callEntryText is callEntry that also returns the error's text.
func callEntryText(sp *saml2.SAMLServiceProvider, entry, enc string) (res, data, errc, text string) {
	defer func() {
		if r := recover(); r != nil {
			res, errc = "panic", fmt.Sprint(r)
		}
	}()
	iss := func(i *types.Issuer) string {
		if i == nil {
			return "<nil>"
		}
		return i.Value
	}
	var err error
	var isNil bool
	switch entry {
	case "validate", "validateEncInner":
		var r *types.Response
		r, err = sp.ValidateEncodedResponse(enc)
		isNil = r == nil
		if r != nil {
			data = fmt.Sprint(r.ID, r.InResponseTo, r.SignatureValidated, len(r.Assertions))
			for i := range r.Assertions {
				data += world.Identify(&r.Assertions[i])
			}
		}
	case "info":
		var r *saml2.AssertionInfo
		r, err = sp.RetrieveAssertionInfo(enc)
		isNil = r == nil
		if r != nil {
			data = fmt.Sprint(r.NameID, r.SessionIndex, r.ResponseSignatureValidated, r.Values.GetAll("roles"))
			if wi := r.WarningInfo; wi != nil {
				data += fmt.Sprint(wi.OneTimeUse, wi.NotInAudience, wi.InvalidTime)
				if wi.ProxyRestriction != nil {
					data += fmt.Sprint(wi.ProxyRestriction.Count, wi.ProxyRestriction.Audience)
				}
			}
		}
	case "predecodeResp":
		var r *types.UnverifiedBaseResponse
		r, err = saml2.DecodeUnverifiedBaseResponse(enc)
		isNil = r == nil
		if r != nil {
			data = fmt.Sprint(r.ID, r.InResponseTo, r.Destination, r.Version, iss(r.Issuer))
		}
	case "predecodeLogout":
		var r *types.LogoutResponse
		r, err = saml2.DecodeUnverifiedLogoutResponse(enc)
		isNil = r == nil
		if r != nil {
			data = fmt.Sprint(r.ID, r.InResponseTo, r.Destination, r.Version, iss(r.Issuer))
		}
	case "logoutReq":
		var r *saml2.LogoutRequest
		r, err = sp.ValidateEncodedLogoutRequestPOST(enc)
		isNil = r == nil
		if r != nil {
			data = fmt.Sprint(r.ID, r.Destination, iss(r.Issuer), r.SignatureValidated)
		}
	case "logoutResp":
		var r *types.LogoutResponse
		r, err = sp.ValidateEncodedLogoutResponsePOST(enc)
		isNil = r == nil
		if r != nil {
			data = fmt.Sprint(r.ID, r.InResponseTo, r.Destination, iss(r.Issuer), r.SignatureValidated)
		}
	}
	res, _ = classify(isNil, err)
	e := projectErr(err)
	errc = e.Cls + ":" + e.Type + ":" + fmt.Sprint(e.Names)
	if err != nil {
		text = err.Error()
	}
	return
}

func (Inflate) Run(c *orch.Case) *orch.Outcome {
	var cfg iCfg
	var in iInput
	if json.Unmarshal(c.Cfg, &cfg) != nil || json.Unmarshal(c.Input, &in) != nil {
		orch.Fatal("inflate: bad case")
	}
	_ = rand.Int
	limit := map[string]int{"0": 5 << 20, "1": 1, "2k": 2048, "64k": 65536, "maxint": math.MaxInt64}[cfg.Limit]
	eff := limit
	if in.Entry == "predecodeResp" || in.Entry == "predecodeLogout" {
		eff = 5 << 20
	}
	var total int
	switch in.Size {
	case "natural":
		total = 0
	case "lim_min":
		total = eff
	case "lim-1":
		total = eff - 1
	case "lim":
		total = eff
	case "lim+1":
		total = eff + 1
	case "x100": // at least 32 MiB so that an unbounded read dwarfs the allowance even for tiny limits
		total = eff * 100
		if total < 32<<20 {
			total = 32 << 20
		}
	case "x1000":
		total = eff * 1000
		if total < 256<<20 {
			total = 256 << 20
		}
	}
	// quick tier: bound the default-limit bomb (still 20x the limit)
	if os.Getenv("VERIF_TIER") != "thorough" && total > 100<<20 {
		total = 100 << 20
	}
	sp := world.Get().NewSP()
	sp.MaximumDecompressedBodySize = map[string]int64{"0": 0, "1": 1, "2k": 2048, "64k": 65536, "maxint": math.MaxInt64}[cfg.Limit]
	if in.Pres == "lead" {
		return runLead(sp, &in, &cfg, eff)
	}
	var enc string
	if in.Entry == "validateEncInner" {
		enc = presentInner(in.Good, total, in.Pres)
	} else if in.Size == "lim_min" {
		enc = presentMinimal(in.Entry, in.Good, total, in.Pres)
	} else {
		enc = present(in.Entry, in.Good, total, in.Pres)
	}

	o := &iObs{Size: total, InputKiB: len(enc) >> 10}
	if total > 8<<20 {
		runtime.GC() // keeps the resident set down after the large cases; TotalAlloc is cumulative and unaffected
	}
	var m0, m1 runtime.MemStats
	runtime.ReadMemStats(&m0)
	res, data, errc := callEntry(sp, in.Entry, enc)
	runtime.ReadMemStats(&m1)
	o.Res, o.Err = res, errc
	o.AllocKiB = int((m1.TotalAlloc - m0.TotalAlloc) >> 10)
	if in.Pres != "raw" && total <= eff {
		twin := ""
		if in.Entry == "validateEncInner" {
			twin = presentInner(in.Good, total, "raw")
		} else if in.Size == "lim_min" {
			twin = presentMinimal(in.Entry, in.Good, total, "raw")
		} else {
			twin = present(in.Entry, in.Good, total, "raw")
		}
		rres, rdata, rerrc := callEntry(sp, in.Entry, twin)
		o.Same = rres == res && rdata == data && rerrc == errc
	}
	return &orch.Outcome{Obs: o, Replay: map[string]any{"entry": in.Entry, "limit": cfg.Limit, "decompressed_size": total, "pres": in.Pres,
		"note": "input = base document padded with trailing newlines to decompressed_size, presented raw or DEFLATE; regenerate with the same case"}}
}

// runLead presents the natural-size document in one DEFLATE stream per achievable first octet and reports
// the first one that is not treated like the raw document (or the last one when all are).
func runLead(sp *saml2.SAMLServiceProvider, in *iInput, cfg *iCfg, eff int) *orch.Outcome {
	var doc []byte
	if in.Entry == "validateEncInner" {
		doc = innerDoc(in.Good)
	} else {
		doc = inflateDoc(in.Entry, in.Good)
	}
	wrap := func(stream []byte) string {
		if in.Entry == "validateEncInner" {
			return innerResponse(stream)
		}
		return base64.StdEncoding.EncodeToString(stream)
	}
	rres, rdata, rerrc := callEntry(sp, in.Entry, wrap(doc))
	o := &iObs{Size: len(doc)}
	var leads []string
	var enc string
	for _, st := range leadStreamsFor(fmt.Sprint(in.Entry, in.Good), doc) {
		enc = wrap(st)
		res, data, errc := callEntry(sp, in.Entry, enc)
		o.Res, o.Err, o.InputKiB = res, errc, len(enc)>>10
		o.Same = rres == res && rdata == data && rerrc == errc
		leads = append(leads, fmt.Sprintf("%02x", st[0]))
		want := "reject"
		if in.Good && len(doc) <= eff {
			want = "accept"
		}
		if (len(doc) <= eff && !o.Same) || res != want {
			o.Err += fmt.Sprintf(" [stream with first octet %#x]", st[0])
			break
		}
	}
	return &orch.Outcome{Obs: o, Replay: map[string]any{"entry": in.Entry, "limit": cfg.Limit, "pres": in.Pres, "encoded": enc, "first_octets_tried": strings.Join(leads, " ")}}
}

func (Inflate) Corrupt(c *orch.Case, o *orch.Outcome) (any, string, bool) {
	ob := o.Obs.(*iObs)
	var in iInput
	json.Unmarshal(c.Input, &in)
	if in.Pres == "raw" || ob.Res != "reject" || in.Size != "lim+1" {
		return nil, "", false
	}
	cp := *ob
	cp.Res = "accept"
	return &cp, "C12", true
}
