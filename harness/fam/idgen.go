package fam

import (
	"bytes"
	"crypto/rand"
	"encoding/json"
	"errors"
	"fmt"
	"io"
	mrand "math/rand"
	"sort"
	"strings"
	"sync"

	"github.com/beevik/etree"
	saml2 "github.com/russellhaering/gosaml2"

	"verifharness/orch"
	"verifharness/world"
)

// IdGen records a history of message constructions (C18) and hands it to spec/IdGen.tla.
type IdGen struct{}

type idEvent struct {
	Seq           int    `json:"seq"`
	Kind          string `json:"kind"`
	SP            int    `json:"sp"`
	G             int    `json:"g"`
	Draw          []int  `json:"draw"`
	ID            []int  `json:"id"`
	Prev          []int  `json:"prev"`
	DrawsMatching int    `json:"draws_matching"`
	IDString      string `json:"id_string"`
}

func (IdGen) Name() string                    { return "IdGen" }
func (IdGen) MC(tier string) (string, string) { return "MC_IdGen.tla", "MC_IdGen_" + tier + ".cfg" }
func (IdGen) Trace() (string, string)         { return "Trace_IdGen.tla", "Trace_IdGen.cfg" }
func (IdGen) Cap(tier string) int             { return 0 }
func (IdGen) Layouts(tier string) int         { return 1 }

// recReader wraps the OS random source and records every read.
type recReader struct {
	mu    sync.Mutex
	inner io.Reader
	reads [][]byte
}

func (r *recReader) Read(p []byte) (int, error) {
	n, err := r.inner.Read(p)
	if n > 0 {
		cp := append([]byte{}, p[:n]...)
		r.mu.Lock()
		r.reads = append(r.reads, cp)
		r.mu.Unlock()
	}
	return n, err
}

// shortReader returns at most five octets per Read and keeps the stream it handed out.
type shortReader struct {
	inner  io.Reader
	stream []byte
}

func (r *shortReader) Read(p []byte) (int, error) {
	if len(p) > 5 {
		p = p[:1+len(r.stream)%5]
	}
	n, err := r.inner.Read(p)
	r.stream = append(r.stream, p[:n]...)
	return n, err
}

// flakyReader fails every fourth Read: alternately outright and after a partial read.
type flakyReader struct {
	inner io.Reader
	calls int
}

func (r *flakyReader) Read(p []byte) (int, error) {
	r.calls++
	if r.calls%4 == 0 {
		if r.calls%8 == 0 && len(p) > 7 {
			n, _ := r.inner.Read(p[:7])
			return n, errors.New("entropy source failed part-way")
		}
		return 0, errors.New("entropy source temporarily unavailable")
	}
	return r.inner.Read(p)
}

// edgeReader serves prepared 16-octet blocks, one per 16-octet Read.
type edgeReader struct {
	inner  io.Reader
	blocks [][]byte
	i      int
}

func (r *edgeReader) Read(p []byte) (int, error) {
	if len(p) == 16 && r.i < len(r.blocks) {
		copy(p, r.blocks[r.i])
		r.i++
		return 16, nil
	}
	return r.inner.Read(p)
}

// edgeBlocks: 16-octet blocks at the edges of the value space, pairwise distinct in their free bits (two blocks that
// differ only in forced bits would, correctly, give the same identifier).
func edgeBlocks() [][]byte {
	var out [][]byte
	seen := map[[16]byte]bool{}
	add := func(b []byte) {
		k := freeBitsKey(b)
		if !seen[k] {
			seen[k] = true
			out = append(out, b)
		}
	}
	fill := func(v byte) []byte { return bytes.Repeat([]byte{v}, 16) }
	add(fill(0x00))
	add(fill(0xff))
	add(fill(0x0f))
	add(fill(0xf0))
	for k := 1; k < 16; k++ { // k zero octets in front / at the end, the rest a counting pattern
		f, e := fill(0), fill(0)
		for i := 0; i < 16; i++ {
			if i >= k {
				f[i] = byte(0x11 * (i%15 + 1))
			}
			if i < 16-k {
				e[i] = byte(0x11 * (i%15 + 1))
			}
		}
		add(f)
		add(e)
	}
	for bit := 0; bit < 128; bit += 3 { // a single set bit / a single clear bit
		one, zero := fill(0), fill(0xff)
		one[bit/8] |= 1 << (bit % 8)
		zero[bit/8] &^= 1 << (bit % 8)
		add(one)
		add(zero)
	}
	for _, v := range []byte{0x00, 0x0a, 0xa0, 0xff} { // the two octets that carry the forced bits
		b := fill(0x5a)
		b[6], b[8] = v, v
		add(b)
	}
	return out
}

func freeBitsKey(b []byte) [16]byte {
	var k [16]byte
	copy(k[:], b)
	k[6] &= 0x0f
	k[8] &= 0x3f
	return k
}

func hexVal(c byte) int {
	switch {
	case c >= '0' && c <= '9':
		return int(c - '0')
	case c >= 'a' && c <= 'f':
		return int(c-'a') + 10
	case c >= 'A' && c <= 'F':
		return int(c-'A') + 10
	}
	return -1
}

// idBytes parses "_xxxxxxxx-xxxx-..." leniently into 16 octets (nil when it has another shape).
func idBytes(id string) []byte {
	var hex []byte
	for i := 0; i < len(id); i++ {
		if hexVal(id[i]) >= 0 {
			hex = append(hex, id[i])
		}
	}
	if len(hex) != 32 {
		return nil
	}
	out := make([]byte, 16)
	for i := range out {
		out[i] = byte(hexVal(hex[2*i])<<4 | hexVal(hex[2*i+1]))
	}
	return out
}

func codes(s string) []int {
	out := make([]int, 0, len(s))
	for _, r := range s {
		out = append(out, int(r))
	}
	return out
}

// Extra builds the whole history: several SP instances, several goroutines, all three message kinds.
func (IdGen) Extra(tier string, seed int64) []orch.Case {
	// more than 2^16 constructions in one process even in the quick tier (a per-process counter of that width wraps)
	total := 140000
	if tier == "thorough" {
		total = 300000
	}
	const nSP, nG = 4, 8
	rec := &recReader{inner: rand.Reader}
	old := rand.Reader
	rand.Reader = rec
	defer func() { rand.Reader = old }()

	w := world.Get()
	sps := make([]*saml2.SAMLServiceProvider, nSP)
	for i := range sps {
		sps[i] = w.NewSP()
		sps[i].SignAuthnRequests = i%2 == 0
		// the optional settings vary between the providers: none of them has any bearing on the identifier
		sps[i].ForceAuthn = i == 1 || i == 3
		sps[i].IsPassive = i == 2 || i == 3
		if i == 3 {
			sps[i].NameIdFormat = saml2.NameIdFormatTransient
			sps[i].RequestedAuthnContext = &saml2.RequestedAuthnContext{Comparison: saml2.AuthnPolicyMatchMinimum, Contexts: []string{saml2.AuthnContextPasswordProtectedTransport}}
		}
	}
	type rawEv struct {
		kind  string
		sp, g int
		id    string
	}
	var mu sync.Mutex
	var evs []rawEv
	var wg sync.WaitGroup
	per := total / nG
	for g := 0; g < nG; g++ {
		wg.Add(1)
		go func(g int) {
			defer wg.Done()
			rng := mrand.New(mrand.NewSource(seed*131 + int64(g)))
			local := make([]rawEv, 0, per)
			for i := 0; i < per; i++ {
				spi := rng.Intn(nSP)
				sp := sps[spi]
				var doc *etree.Document
				var err error
				kind := []string{"authn", "logoutReq", "logoutResp"}[rng.Intn(3)]
				switch kind {
				case "authn":
					doc, err = sp.BuildAuthRequestDocumentNoSig()
				case "logoutReq":
					doc, err = sp.BuildLogoutRequestDocumentNoSig("alice@example.com", "sess-1")
				default:
					doc, err = sp.BuildLogoutResponseDocumentNoSig(saml2.StatusCodeSuccess, "_req-1")
				}
				if err != nil || doc == nil || doc.Root() == nil {
					orch.Fatal("idgen: build %s: %v", kind, err)
				}
				// every 50th message goes through the signing path as well
				if i%50 == 0 && kind == "logoutReq" {
					if d2, err := sp.BuildLogoutRequestDocument("alice@example.com", "sess-1"); err == nil {
						local = append(local, rawEv{"logoutReqSigned", spi, g, d2.Root().SelectAttrValue("ID", "")})
					}
				}
				local = append(local, rawEv{kind, spi, g, doc.Root().SelectAttrValue("ID", "")})
			}
			mu.Lock()
			evs = append(evs, local...)
			mu.Unlock()
		}(g)
	}
	wg.Wait()

	// second phase: an entropy source that hands out at most five octets per Read (io.Reader permits
	// that). Single goroutine, unsigned messages only, so the stream of octets read belongs to the
	// identifiers in order: identifier i must be built from octets [16i, 16i+16).
	short := &shortReader{inner: old}
	rand.Reader = short
	nShort := 300
	var shortEvs []rawEv
	for i := 0; i < nShort; i++ {
		sp := sps[i%nSP]
		var doc *etree.Document
		var err error
		kind := []string{"authn", "logoutReq", "logoutResp"}[i%3]
		switch kind {
		case "authn":
			doc, err = sp.BuildAuthRequestDocumentNoSig()
		case "logoutReq":
			doc, err = sp.BuildLogoutRequestDocumentNoSig("alice@example.com", "sess-1")
		default:
			doc, err = sp.BuildLogoutResponseDocumentNoSig(saml2.StatusCodeSuccess, "_req-1")
		}
		if err != nil || doc == nil || doc.Root() == nil {
			orch.Fatal("idgen: build %s: %v", kind, err)
		}
		shortEvs = append(shortEvs, rawEv{kind + "/short-reads", i % nSP, 0, doc.Root().SelectAttrValue("ID", "")})
	}
	// third phase: an entropy source that fails now and then. A builder may refuse (error or panic: no
	// message), but every message it does hand back is an event like any other.
	flaky := &flakyReader{inner: rec}
	rand.Reader = flaky
	refused := 0
	for i := 0; i < 300; i++ {
		sp := sps[i%nSP]
		kind := []string{"authn", "logoutReq", "logoutResp", "logoutReqSigned"}[i%4]
		doc, err := func() (doc *etree.Document, err error) {
			defer func() {
				if r := recover(); r != nil {
					doc, err = nil, fmt.Errorf("panic: %v", r)
				}
			}()
			switch kind {
			case "authn":
				return sp.BuildAuthRequestDocumentNoSig()
			case "logoutReq":
				return sp.BuildLogoutRequestDocumentNoSig("alice@example.com", "sess-1")
			case "logoutReqSigned":
				return sp.BuildLogoutRequestDocument("alice@example.com", "sess-1")
			}
			return sp.BuildLogoutResponseDocumentNoSig(saml2.StatusCodeSuccess, "_req-1")
		}()
		if err != nil || doc == nil || doc.Root() == nil {
			refused++
			continue
		}
		evs = append(evs, rawEv{kind + "/flaky-entropy", i % nSP, 0, doc.Root().SelectAttrValue("ID", "")})
	}
	// (how often the library reads, and how many builds it refuses, is its own business: the events are judged like
	// all others)
	fmt.Printf("step=flaky-entropy reads=%d refused=%d of 300\n", flaky.calls, refused)
	rand.Reader = rec
	// phase with prepared entropy: blocks at the edges of the value space (runs of zero octets in front, at the end, in the
	// middle; all ones; single set bits), each used for one message. The identifier must be the rendering of its block.
	edge := &edgeReader{inner: rec, blocks: edgeBlocks()}
	rand.Reader = edge
	edgeDraw := map[string][]byte{}
	for i := range edge.blocks {
		kind := []string{"authn", "logoutReq", "logoutResp"}[i%3]
		var doc *etree.Document
		var err error
		switch kind {
		case "authn":
			doc, err = sps[1].BuildAuthRequestDocumentNoSig()
		case "logoutReq":
			doc, err = sps[1].BuildLogoutRequestDocumentNoSig("alice@example.com", "sess-1")
		default:
			doc, err = sps[1].BuildLogoutResponseDocumentNoSig(saml2.StatusCodeSuccess, "_req-1")
		}
		if err != nil || doc == nil || doc.Root() == nil {
			orch.Fatal("idgen: edge phase: build %s: %v", kind, err)
		}
		id := doc.Root().SelectAttrValue("ID", "")
		before := edge.i
		_ = before
		evs = append(evs, rawEv{kind + "/edge-entropy", 1, 0, id})
		if edge.i == i+1 { // the library took exactly this block for this message (anything else has no matching draw)
			edgeDraw[id] = edge.blocks[i]
		} else {
			break
		}
	}
	rand.Reader = rec
	// fourth phase: the first messages of a process. Each run of cmd/verifcold is a fresh process in which twelve
	// goroutines, released together, build the first 36 messages; it reports the identifiers and its entropy reads.
	nCold := 40
	if tier == "thorough" {
		nCold = 400
	}
	for k := 0; k < nCold; k++ {
		var co ColdIDsOut
		runCold(&co, "ids")
		for _, c := range co.IDs {
			evs = append(evs, rawEv{c.Kind, 0, c.G, c.ID})
		}
		rec.mu.Lock()
		rec.reads = append(rec.reads, co.Reads...)
		rec.mu.Unlock()
	}
	removeColdBinary()
	shortDraw := map[string][]byte{}
	for i, e := range shortEvs {
		if 16*i+16 <= len(short.stream) {
			shortDraw[e.id] = short.stream[16*i : 16*i+16]
		}
		evs = append(evs, e)
	}

	// index the recorded 16-octet reads by their free bits
	byFree := map[[16]byte][][]byte{}
	for _, r := range rec.reads {
		if len(r) == 16 {
			k := freeBitsKey(r)
			byFree[k] = append(byFree[k], r)
		}
	}
	sort.SliceStable(evs, func(i, j int) bool { return evs[i].id < evs[j].id })
	cases := make([]orch.Case, 0, len(evs))
	var prev []int
	for i, e := range evs {
		ev := idEvent{Seq: i, Kind: e.kind, SP: e.sp, G: e.g, ID: codes(e.id), Prev: prev, IDString: e.id, Draw: []int{}}
		if ev.Prev == nil {
			ev.Prev = []int{}
		}
		if d, ok := edgeDraw[e.id]; ok && strings.HasSuffix(e.kind, "/edge-entropy") {
			ev.DrawsMatching = 1
			for _, x := range d {
				ev.Draw = append(ev.Draw, int(x))
			}
		} else if d, ok := shortDraw[e.id]; ok && strings.HasSuffix(e.kind, "/short-reads") {
			ev.DrawsMatching = 1
			for _, x := range d {
				ev.Draw = append(ev.Draw, int(x))
			}
		} else if b := idBytes(e.id); b != nil {
			m := byFree[freeBitsKey(b)]
			ev.DrawsMatching = len(m)
			if len(m) > 0 {
				for _, x := range m[0] {
					ev.Draw = append(ev.Draw, int(x))
				}
			}
		}
		prev = ev.ID
		in, _ := json.Marshal(ev)
		cases = append(cases, orch.Case{Src: "history", Cfg: json.RawMessage(`{}`), Input: json.RawMessage(`{"seq":` + itoa(i) + `}`), ModelOut: in, Seed: seed})
	}
	return cases
}

func itoa(i int) string { b, _ := json.Marshal(i); return string(b) }

// Run echoes the recorded event (the history was produced collectively by Extra).
func (IdGen) Run(c *orch.Case) *orch.Outcome {
	var ev idEvent
	if err := json.Unmarshal(c.ModelOut, &ev); err != nil {
		orch.Fatal("idgen: %v", err)
	}
	return &orch.Outcome{Obs: &ev, Replay: map[string]any{"id": ev.IDString, "note": "identifiers are random; re-run the check to draw a new history"}}
}

func (IdGen) Corrupt(c *orch.Case, o *orch.Outcome) (any, string, bool) {
	ev := *(o.Obs.(*idEvent))
	if len(ev.ID) != 37 {
		return nil, "", false
	}
	ev.ID = append([]int{}, ev.ID...)
	ev.ID[1] = '1' // an identifier that starts with a digit
	ev.ID[0] = '9'
	return &ev, "C18", true
}
