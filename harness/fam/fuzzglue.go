package fam

import (
	"bytes"
	"compress/flate"
	"crypto/tls"
	"encoding/base64"
	"encoding/xml"
	"fmt"
	"sync"

	saml2 "github.com/russellhaering/gosaml2"
	"github.com/russellhaering/gosaml2/types"

	"verifharness/world"
)

var fuzzEntries = []string{"validate", "info", "predecodeResp", "predecodeLogout", "logoutReq", "logoutResp", "decryptBytes"}

type FuzzSeed struct {
	Data []byte
	Sel  byte
}

func FuzzEntry(sel byte) string { return fuzzEntries[int(sel)%len(fuzzEntries)] }

// FuzzSeeds: every genuine message, raw and DEFLATE-compressed, on the entry points that accept it.
func FuzzSeeds() []FuzzSeed {
	var out []FuzzSeed
	b := garbageBases()
	deflate := func(d []byte) []byte {
		var buf bytes.Buffer
		fw, _ := flate.NewWriter(&buf, 6)
		fw.Write(d)
		fw.Close()
		return buf.Bytes()
	}
	add := func(d []byte, entries ...int) {
		for _, e := range entries {
			out = append(out, FuzzSeed{d, byte(e)}, FuzzSeed{deflate(d), byte(e)})
		}
	}
	add(b["sso"], 0, 1, 2)
	add(b["ssoenc"], 0, 1)
	add(b["logoutReq"], 4)
	add(b["logoutResp"], 3, 5)
	out = append(out, FuzzSeed{gbEncEl, 6})
	decl := []byte(`<?xml version="1.0" encoding="UTF-8" standalone="no"?>` + "\n")
	out = append(out, FuzzSeed{append(append([]byte{}, decl...), b["sso"]...), 2}, FuzzSeed{append(append([]byte{}, decl...), b["logoutResp"]...), 3})
	return out
}

var (
	fuzzOnce sync.Once
	fuzzSP   *saml2.SAMLServiceProvider
	fuzzCert *tls.Certificate
)

// FuzzCall hands data (the octets before base64) to one entry point and classifies the outcome the
// way the Garbage family does: accept / reject / panic / nilnil / both.
func FuzzCall(sel byte, data []byte) (res string) {
	fuzzOnce.Do(func() {
		w := world.Get()
		fuzzSP = w.NewSP()
		fuzzCert = &tls.Certificate{Certificate: [][]byte{w.SP.DER}, PrivateKey: w.SP.Key}
	})
	entry := FuzzEntry(sel)
	if entry == "decryptBytes" {
		defer func() {
			if r := recover(); r != nil {
				res = fmt.Sprint("panic: ", r)
			}
		}()
		var ea types.EncryptedAssertion
		if xml.Unmarshal(data, &ea) != nil {
			return "reject"
		}
		b, err := ea.DecryptBytes(fuzzCert)
		if err != nil && b != nil {
			return "both"
		}
		if err != nil {
			return "reject"
		}
		return "accept"
	}
	r, _, errc := callEntry(fuzzSP, entry, base64.StdEncoding.EncodeToString(data))
	if r == "panic" {
		return "panic: " + errc
	}
	return r
}
