package fam

import (
	"encoding/base64"
	"encoding/json"
	"fmt"
	"math/rand"
	"os"
	"os/exec"
	"path/filepath"
	"strconv"
	"strings"
	"time"

	"verifharness/orch"
)

// fuzzCases runs Go's coverage-guided fuzzer (harness/fuzzin) against the tree under check for a
// fixed time and returns what it kept -- inputs that reached new code, and the input it stopped on
// if any -- as cases of class "fuzz". Nothing is decided here.
func fuzzCases(tier string, seed int64) []orch.Case {
	secs, keep := 10, 600
	if tier == "thorough" {
		secs, keep = 180, 4000
	}
	hdir := os.Getenv("VERIF_HARNESS")
	if hdir == "" {
		hdir = filepath.Join(orch.VerifDir, "harness")
	}
	scratch, err := os.MkdirTemp("", "verif-fuzz-")
	if err != nil {
		orch.Fatal("fuzz: %v", err)
	}
	defer os.RemoveAll(scratch)
	bin := filepath.Join(scratch, "fuzz.bin")
	build := exec.Command("go", "test", "-c", "-tags", "verif", "-fuzz=FuzzInbound", "-o", bin, "./fuzzin")
	build.Dir = hdir
	if out, err := build.CombinedOutput(); err != nil {
		orch.Fatal("fuzz: cannot build the fuzz target: %v\n%s", err, out)
	}
	t0 := time.Now()
	run := exec.Command(bin, "-test.run=^$", "-test.fuzz=^FuzzInbound$", fmt.Sprintf("-test.fuzztime=%ds", secs), "-test.fuzzcachedir="+filepath.Join(scratch, "cache"))
	run.Dir = scratch
	out, runErr := run.CombinedOutput()
	text := string(out)
	if !strings.Contains(text, "fuzzing with") && !strings.Contains(text, "Failing input") && !strings.Contains(text, "FAIL") {
		orch.Fatal("fuzz: the fuzzer did not run: %v\n%s", runErr, text)
	}
	var files []string
	crash, _ := filepath.Glob(filepath.Join(scratch, "testdata", "fuzz", "FuzzInbound", "*"))
	corpus, _ := filepath.Glob(filepath.Join(scratch, "cache", "FuzzInbound", "*"))
	rng := rand.New(rand.NewSource(seed))
	rng.Shuffle(len(corpus), func(i, j int) { corpus[i], corpus[j] = corpus[j], corpus[i] })
	if len(corpus) > keep {
		corpus = corpus[:keep]
	}
	files = append(files, crash...)
	files = append(files, corpus...)
	var cases []orch.Case
	for _, f := range files {
		data, sel, ok := readCorpusFile(f)
		if !ok || len(data) > 1<<16 {
			continue
		}
		in, _ := json.Marshal(zInput{Entry: FuzzEntry(sel), Class: "fuzz", Base: "sso", Blob: base64.StdEncoding.EncodeToString(data), Of: -1})
		cases = append(cases, orch.Case{Src: "fuzz", Cfg: json.RawMessage(`{"sp":"normal"}`), Input: in, Seed: seed})
	}
	execs := ""
	for _, l := range strings.Split(text, "\n") {
		if strings.Contains(l, "execs:") {
			execs = strings.TrimSpace(l)
		}
	}
	fmt.Printf("step=fuzz-generator seconds=%d stopped_on_input=%d kept_inputs=%d cases=%d wall=%.1fs (%s)\n", secs, len(crash), len(corpus), len(cases), time.Since(t0).Seconds(), execs)
	return cases
}

// readCorpusFile parses Go's corpus file format ("go test fuzz v1", one Go literal per line).
func readCorpusFile(path string) (data []byte, sel byte, ok bool) {
	b, err := os.ReadFile(path)
	if err != nil {
		return nil, 0, false
	}
	lines := strings.Split(strings.TrimSpace(string(b)), "\n")
	if len(lines) != 3 || !strings.HasPrefix(lines[0], "go test fuzz v1") {
		return nil, 0, false
	}
	l1 := strings.TrimSpace(lines[1])
	if !strings.HasPrefix(l1, "[]byte(") || !strings.HasSuffix(l1, ")") {
		return nil, 0, false
	}
	s, err := strconv.Unquote(l1[len("[]byte(") : len(l1)-1])
	if err != nil {
		return nil, 0, false
	}
	l2 := strings.TrimSpace(lines[2])
	if !strings.HasPrefix(l2, "byte(") || !strings.HasSuffix(l2, ")") {
		return nil, 0, false
	}
	lit := l2[len("byte(") : len(l2)-1]
	if r, _, _, err := strconv.UnquoteChar(strings.Trim(lit, "'"), '\''); err == nil && strings.HasPrefix(lit, "'") {
		return []byte(s), byte(r), true
	}
	if n, err := strconv.ParseUint(lit, 0, 8); err == nil {
		return []byte(s), byte(n), true
	}
	return nil, 0, false
}
