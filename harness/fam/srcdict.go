package fam

import (
	"go/ast"
	"go/parser"
	gotoken "go/token"
	"os"
	"path/filepath"
	"sort"
	"strconv"
	"strings"
	"sync"
)

var (
	srcOnce sync.Once
	srcLits []string
)

// SourceLiterals returns the distinct string literals of the library's own (non-test) source files in
// the tree under check: a caller-supplied string equal to a token the code itself uses (a placeholder,
// a prefix it switches on, a parameter name) is where string handling written around such a token breaks.
func SourceLiterals() []string {
	srcOnce.Do(func() {
		root := os.Getenv("VERIF_REPO")
		if root == "" {
			root = "/repo"
		}
		seen, tags := map[string]bool{}, map[string]bool{}
		for _, dir := range []string{root, filepath.Join(root, "types"), filepath.Join(root, "uuid")} {
			ents, _ := os.ReadDir(dir)
			for _, e := range ents {
				n := e.Name()
				if e.IsDir() || !strings.HasSuffix(n, ".go") || strings.HasSuffix(n, "_test.go") {
					continue
				}
				f, err := parser.ParseFile(gotoken.NewFileSet(), filepath.Join(dir, n), nil, 0)
				if err != nil {
					continue
				}
				ast.Inspect(f, func(nd ast.Node) bool {
					if _, ok := nd.(*ast.ImportSpec); ok {
						return false
					}
					if fld, ok := nd.(*ast.Field); ok && fld.Tag != nil {
						// struct tags are not run-time strings of the code; the names inside them are
						tags[fld.Tag.Value] = true
						for _, part := range strings.FieldsFunc(fld.Tag.Value, func(r rune) bool { return strings.ContainsRune("`\": ,", r) }) {
							if len(part) >= 4 {
								seen[part] = true
							}
						}
					}
					if bl, ok := nd.(*ast.BasicLit); ok && bl.Kind == gotoken.STRING && !tags[bl.Value] {
						if s, err := strconv.Unquote(bl.Value); err == nil && len(s) >= 2 && len(s) <= 200 && !strings.ContainsAny(s, "\x00") {
							seen[s] = true
						}
					}
					return true
				})
			}
		}
		for s := range seen {
			srcLits = append(srcLits, s)
		}
		sort.Strings(srcLits)
	})
	return srcLits
}
