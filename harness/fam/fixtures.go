package fam

import (
	"bytes"
	"crypto/tls"
	"crypto/x509"
	"encoding/base64"
	"encoding/json"
	"encoding/pem"
	"encoding/xml"
	"io"
	"os"
	"path/filepath"
	"strings"
	"time"

	saml2 "github.com/russellhaering/gosaml2"
	dsig "github.com/russellhaering/goxmldsig"

	"verifharness/orch"
)

// Fixture is a real IdP capture (copied from the repository's provider tests into /verif/fixtures).
type Fixture struct {
	Name         string `json:"name"`
	File         string `json:"file"`
	B64          bool   `json:"b64"`
	Encrypted    bool   `json:"encrypted"`
	IdpCert      string `json:"idp_cert"`
	Issuer       string `json:"issuer"`
	ACS          string `json:"acs"`
	Audience     string `json:"audience"`
	Now          string `json:"now"`
	SPCert       string `json:"sp_cert"`
	SPKey        string `json:"sp_key"`
	AllowMissing bool   `json:"allow_missing_attributes"`
}

func fixturesDir() string { return filepath.Join(orch.VerifDir, "fixtures") }

func LoadFixtures() []Fixture {
	b, err := os.ReadFile(filepath.Join(fixturesDir(), "fixtures.json"))
	if err != nil {
		orch.Fatal("fixtures: %v", err)
	}
	var fs []Fixture
	if err := json.Unmarshal(b, &fs); err != nil {
		orch.Fatal("fixtures: %v", err)
	}
	return fs
}

func (f *Fixture) Raw() []byte {
	b, err := os.ReadFile(filepath.Join(fixturesDir(), f.File))
	if err != nil {
		orch.Fatal("fixture %s: %v", f.Name, err)
	}
	if f.B64 {
		d, err := base64.StdEncoding.DecodeString(strings.TrimSpace(string(b)))
		if err != nil {
			orch.Fatal("fixture %s: %v", f.Name, err)
		}
		return d
	}
	return b
}

func loadCert(name string) *x509.Certificate {
	b, err := os.ReadFile(filepath.Join(fixturesDir(), name))
	if err != nil {
		orch.Fatal("fixture cert: %v", err)
	}
	blk, _ := pem.Decode(b)
	c, err := x509.ParseCertificate(blk.Bytes)
	if err != nil {
		orch.Fatal("fixture cert: %v", err)
	}
	return c
}

func (f *Fixture) SP() *saml2.SAMLServiceProvider {
	now, _ := time.Parse(time.RFC3339, f.Now)
	sp := &saml2.SAMLServiceProvider{
		IdentityProviderIssuer:      f.Issuer,
		AssertionConsumerServiceURL: f.ACS,
		AudienceURI:                 f.Audience,
		IDPCertificateStore:         &dsig.MemoryX509CertificateStore{Roots: []*x509.Certificate{loadCert(f.IdpCert)}},
		Clock:                       dsig.NewFakeClockAt(now),
		AllowMissingAttributes:      f.AllowMissing,
	}
	if f.SPCert != "" {
		c, err := tls.LoadX509KeyPair(filepath.Join(fixturesDir(), f.SPCert), filepath.Join(fixturesDir(), f.SPKey))
		if err != nil {
			orch.Fatal("fixture key: %v", err)
		}
		sp.SPKeyStore = dsig.TLSCertKeyStore(c)
	}
	return sp
}

// ScannedAssertion is what a plain token scan (no use of gosaml2/types) finds in the first assertion.
type ScannedAssertion struct {
	NameID       string
	SessionIndex string
	Attrs        map[string][]string
	Order        []string
	RespID       string
	InResponseTo string
}

// ScanFirstAssertion extracts expected values with encoding/xml tokens only.
func ScanFirstAssertion(doc []byte) (*ScannedAssertion, error) {
	d := xml.NewDecoder(bytes.NewReader(doc))
	out := &ScannedAssertion{Attrs: map[string][]string{}}
	var stack []string
	assertions := 0
	curAttr := ""
	var text *strings.Builder
	inFirst := func() bool { return assertions == 1 }
	for {
		tok, err := d.Token()
		if err == io.EOF {
			break
		}
		if err != nil {
			return nil, err
		}
		switch t := tok.(type) {
		case xml.StartElement:
			stack = append(stack, t.Name.Local)
			if len(stack) == 1 {
				for _, a := range t.Attr {
					if a.Name.Local == "ID" {
						out.RespID = a.Value
					}
					if a.Name.Local == "InResponseTo" {
						out.InResponseTo = a.Value
					}
				}
			}
			if t.Name.Local == "Assertion" && len(stack) == 2 {
				assertions++
			}
			if !inFirst() {
				continue
			}
			switch t.Name.Local {
			case "NameID", "AttributeValue":
				text = &strings.Builder{}
			case "Attribute":
				for _, a := range t.Attr {
					if a.Name.Local == "Name" {
						curAttr = a.Value
						out.Order = append(out.Order, curAttr)
						if _, ok := out.Attrs[curAttr]; !ok {
							out.Attrs[curAttr] = []string{}
						}
					}
				}
			case "AuthnStatement":
				for _, a := range t.Attr {
					if a.Name.Local == "SessionIndex" {
						out.SessionIndex = a.Value
					}
				}
			}
		case xml.CharData:
			if text != nil {
				text.Write(t)
			}
		case xml.EndElement:
			if inFirst() && text != nil {
				switch t.Name.Local {
				case "NameID":
					if len(stack) >= 2 && stack[len(stack)-2] == "Subject" {
						out.NameID = text.String()
					}
					text = nil
				case "AttributeValue":
					out.Attrs[curAttr] = append(out.Attrs[curAttr], text.String())
					text = nil
				}
			}
			stack = stack[:len(stack)-1]
		}
	}
	return out, nil
}
