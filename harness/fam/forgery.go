package fam

import (
	"bytes"
	"encoding/json"
	"fmt"
	"math/rand"
	"os"
	"reflect"
	"strings"
	"sync"

	"github.com/beevik/etree"
	saml2 "github.com/russellhaering/gosaml2"
	"github.com/russellhaering/gosaml2/types"

	"verifharness/idp"
	"verifharness/orch"
	"verifharness/world"
)

// Forgery concretises the abstract attacker documents of spec/Forgery.tla.
type Forgery struct{}

type fKid struct {
	C     string `json:"c"`
	Sig   string `json:"sig"`
	Place string `json:"place"`
	Enc   bool   `json:"enc"`
	ID    string `json:"id"`
}
type fInput struct {
	Rid  string `json:"rid"`
	Rsig string `json:"rsig"`
	Kids []fKid `json:"kids"`
}
type fCfg struct {
	Skip  bool `json:"skip"`
	Claim bool `json:"claim"`
}

type aObs struct {
	C    string `json:"c"`
	Flag bool   `json:"flag"`
}
type infoObs struct {
	Res   string `json:"res"`
	IFlag bool   `json:"iflag"`
	First  string `json:"first"`
	N      int    `json:"n"`
	AFlags []bool `json:"aflags"`
}
type preObs struct {
	OK    bool `json:"ok"`
	Agree bool `json:"agree"`
}
type fObs struct {
	Res        string  `json:"res"`
	RFlag      bool    `json:"rflag"`
	Assertions []aObs  `json:"assertions"`
	Info       infoObs `json:"info"`
	Pre        preObs  `json:"pre"`
	Err        string  `json:"err"`
	// Marked: an assertion reported as individually validated carries the marker text that the sender put inside the
	// (genuine) Signature element after signing -- content no signature covers
	Marked bool `json:"marked_flagged"`
}

// UnsignedMarker is text a sender adds inside a genuine ds:Signature element (which the enveloped-signature transform
// removes before digesting, so the signature still verifies).
const UnsignedMarker = "UNSIGNED-MARKER-7f3a"

func (Forgery) Name() string { return "Forgery" }
func (Forgery) MC(tier string) (string, string) {
	return "MC_Forgery.tla", "MC_Forgery_" + tier + ".cfg"
}
func (Forgery) Trace() (string, string) { return "Trace_Forgery.tla", "Trace_Forgery.cfg" }
func (Forgery) Cap(tier string) int {
	if tier == "quick" {
		return 6000
	}
	if os.Getenv("VERIF_PROP") == "C01" {
		return 0 // the whole enumerated space for the property this family was built for
	}
	return 60000
}
func (Forgery) Layouts(tier string) int { return 1 }

// Keep: documents with a genuine root signature are few and carry the signed-Response path; always replayed.
// Keep: the acceptance paths (IdP-signed root; unsigned root whose kids all carry the IdP's own signature) and the damaged
// root signatures are preferred in a sample; everything else fills the other two thirds.
func (Forgery) Keep(c *orch.Case) bool {
	if bytes.Contains(c.Input, []byte(`"rsig":"gen"`)) || bytes.Contains(c.Input, []byte(`"rsig":"reloc"`)) || bytes.Contains(c.Input, []byte(`"rsig":"malformed"`)) {
		return true
	}
	return bytes.Contains(c.Input, []byte(`"rsig":"none"`)) && bytes.Contains(c.Input, []byte(`"sig":"own"`)) &&
		!bytes.Contains(c.Input, []byte(`"sig":"none"`)) && !bytes.Contains(c.Input, []byte(`"sig":"att`)) && !bytes.Contains(c.Input, []byte(`"sig":"copied"`))
}

var ridMap = map[string]string{"r1": "_resp-r1", "rX": "_resp-x9", "a1": "_assert-a1"}

func genuineRoot() *idp.Response {
	return &idp.Response{ID: "_resp-r1", Version: idp.S("2.0"), IssueInstant: world.RFC(world.Now.Add(-1e9)), Destination: idp.S(world.ACS),
		InResponseTo: idp.S("_req-1"), Issuer: idp.S(world.IdpIssuer), HasStatus: true, StatusCode: idp.S(idp.StatusSuccess)}
}

func layoutFor(rng *rand.Rand, excOnly bool) idp.Layout {
	return idp.Layout{Prefix: rng.Intn(4), Pretty: rng.Intn(2) == 0, XMLDecl: rng.Intn(2) == 0, Comments: rng.Intn(3) == 0,
		TextMode: rng.Intn(4), Shuffle: rng.Intn(2) == 0, CharRefs: rng.Intn(3) == 0, XsiType: rng.Intn(2) == 0, SQuote: rng.Intn(3) == 0, LeadWS: rng.Intn(4) == 0}
}

// ownSigned builds content c carrying the IdP's own enveloped signature, made in a
// genuine Response context (or standalone), and returns the detached element.
func ownSigned(b *idp.Builder, w *world.World, spec *idp.Assertion, standalone bool) *etree.Element {
	return ownSignedWith(b, w, spec, standalone, nil)
}

// ownSignedWith lets the caller extend the element before the IdP signs it.
func ownSignedWith(b *idp.Builder, w *world.World, spec *idp.Assertion, standalone bool, extend func(*etree.Element)) *etree.Element {
	el := b.AssertionEl(spec, standalone)
	if extend != nil {
		extend(el)
	}
	b.Decorate(el)
	if !standalone {
		ctx := b.ResponseEl(genuineRoot())
		ctx.AddChild(el)
		if _, err := idp.Sign(el, idp.DefaultSig(w.IdpA.Key, w.IdpA.DER)); err != nil {
			panic(err)
		}
		ctx.RemoveChild(el)
		return el
	}
	if _, err := idp.Sign(el, idp.DefaultSig(w.IdpA.Key, w.IdpA.DER)); err != nil {
		panic(err)
	}
	return el
}

// BuildForgery assembles the concrete document for an abstract input.
func BuildForgery(in *fInput, seed int64, claim bool) (doc []byte, lay idp.Layout) {
	return BuildForgeryW(in, seed, claim, "")
}

// BuildForgeryW: as BuildForgery, with every wrapper element named wrapName ("" = drawn by seed).
func BuildForgeryW(in *fInput, seed int64, claim bool, wrapName string) (doc []byte, lay idp.Layout) {
	w := world.Get()
	rng := rand.New(rand.NewSource(seed))
	lay = layoutFor(rng, true)
	b := idp.NewBuilder(lay, seed+1)

	isGR0 := in.Rid == "r1" && len(in.Kids) == 1 && in.Kids[0] == fKid{C: "GA1", Sig: "none", Place: "direct", Enc: false, ID: "own"}

	rs := genuineRoot()
	rs.ID = ridMap[in.Rid]
	root := b.ResponseEl(rs)

	type pending struct {
		el  *etree.Element
		opt idp.SigOpts
	}
	var late []pending // attacker signatures are made once the element sits in its final place

	for _, k := range in.Kids {
		cname := k.C
		if cname == "GA1adv" {
			cname = "GA1"
		}
		spec := world.Content(cname)
		if k.ID == "a1" {
			spec.ID = "_assert-a1"
		}
		standalone := k.Enc
		// GA1adv: the IdP put a second, individually signed assertion into the Advice before signing
		withAdvice := func(el *etree.Element) {
			if k.C == "GA1adv" {
				b.AdviceInto(el, ownSigned(b, w, world.Content("GA2"), true))
			}
		}
		var el *etree.Element
		switch k.Sig {
		case "own":
			el = ownSignedWith(b, w, spec, standalone, withAdvice)
			if seed%3 == 1 {
				// the sender decorates the genuine signature with content of its own
				for _, ch := range el.ChildElements() {
					if ch.Tag == "Signature" {
						obj := etree.NewElement("Object")
						obj.Space = ch.Space
						ev := etree.NewElement("evil")
						ev.SetText(UnsignedMarker)
						obj.AddChild(ev)
						ch.AddChild(obj)
					}
				}
			}
		case "copied":
			other := "GA1"
			if k.C == "GA1" {
				other = "GA2"
			}
			src := ownSigned(b, w, world.Content(other), standalone)
			var sig *etree.Element
			for _, ch := range src.ChildElements() {
				if ch.Tag == "Signature" {
					sig = ch
				}
			}
			src.RemoveChild(sig)
			el = b.AssertionEl(spec, standalone)
			withAdvice(el)
			b.Decorate(el)
			idp.InsertSignature(el, sig, -1)
		default:
			el = b.AssertionEl(spec, standalone)
			withAdvice(el)
			b.Decorate(el)
		}
		attSig := func(target *etree.Element) idp.SigOpts {
			o := idp.DefaultSig(w.Att.Key, w.Att.DER)
			if k.Sig == "attIdp" {
				o.ShowCerts = [][]byte{w.IdpA.DER}
			}
			return o
		}
		if (k.Sig == "att" || k.Sig == "attIdp") && standalone {
			if _, err := idp.Sign(el, attSig(el)); err != nil {
				panic(err)
			}
		}
		node := el
		if k.Enc {
			plain := idp.Serialize(el, lay, rng)
			ee, err := b.EncryptedAssertion(plain, idp.EncOpts{DataAlg: idp.DataAlgs[rng.Intn(5)], KeyTransport: idp.KeyTransports[rng.Intn(3)],
				Pub: &idp.RSAKey("sp").PublicKey, Detached: rng.Intn(2) == 0, Recipient: pick(rng, w.SP.DER)})
			if err != nil {
				panic(err)
			}
			node = ee
		}
		if k.Enc && k.Place == "encwrap" {
			// the wrapping is inside the ciphertext: the plaintext is a wrapper around the assertion
			wr := wrapperFor(b, rng, wrapName)
			wr.AddChild(el)
			ee, err := b.EncryptedAssertion(idp.Serialize(wr, lay, rng), idp.EncOpts{DataAlg: idp.DataAlgs[rng.Intn(5)], KeyTransport: idp.KeyTransports[rng.Intn(3)],
				Pub: &idp.RSAKey("sp").PublicKey, Detached: rng.Intn(2) == 0, Recipient: pick(rng, w.SP.DER)})
			if err != nil {
				panic(err)
			}
			node = ee
		}
		if claim && k.Sig != "own" && !k.Enc {
			claimValidated(el)
		}
		switch k.Place {
		case "direct", "encwrap":
			root.AddChild(node)
		case "wrapped":
			wr := wrapperFor(b, rng, wrapName)
			wr.AddChild(node)
			root.AddChild(wr)
		case "nested":
			car := b.AssertionEl(world.Content("CA"), false)
			b.AdviceInto(car, node)
			root.AddChild(car)
		}
		if (k.Sig == "att" || k.Sig == "attIdp") && !standalone {
			late = append(late, pending{el, attSig(el)})
		}
	}
	for _, p := range late {
		if _, err := idp.Sign(p.el, p.opt); err != nil {
			panic(err)
		}
	}
	if claim && in.Rsig != "gen" && !(in.Rsig == "lifted" && isGR0) {
		claimValidated(root)
	}
	switch in.Rsig {
	case "att":
		mustSign(root, idp.DefaultSig(w.Att.Key, w.Att.DER))
	case "attIdp":
		o := idp.DefaultSig(w.Att.Key, w.Att.DER)
		o.ShowCerts = [][]byte{w.IdpA.DER}
		mustSign(root, o)
	case "gen":
		mustSign(root, idp.DefaultSig(w.IdpA.Key, w.IdpA.DER))
	case "reloc":
		sig, err := idp.BuildSignature(root, idp.DefaultSig(w.IdpA.Key, w.IdpA.DER))
		if err != nil {
			panic(err)
		}
		wr := b.Wrapper("Extensions")
		wr.AddChild(sig)
		idp.InsertSignature(root, wr, -1)
	case "malformed":
		sig, err := idp.Sign(root, idp.DefaultSig(w.IdpA.Key, w.IdpA.DER))
		if err != nil {
			panic(err)
		}
		switch rng.Intn(3) {
		case 0:
			sig.RemoveChild(sig.FindElement("./SignatureValue"))
		case 1:
			sig.AddChild(sig.FindElement("./SignedInfo").Copy())
		default:
			sig.AddChild(sig.FindElement("./KeyInfo").Copy())
		}
	case "lifted":
		if isGR0 {
			mustSign(root, idp.DefaultSig(w.IdpA.Key, w.IdpA.DER))
		} else {
			gb := idp.NewBuilder(lay, seed+2)
			g := gb.ResponseEl(genuineRoot())
			g.AddChild(gb.AssertionEl(world.Content("GA1"), false))
			sig, err := idp.BuildSignature(g, idp.DefaultSig(w.IdpA.Key, w.IdpA.DER))
			if err != nil {
				panic(err)
			}
			idp.InsertSignature(root, sig, -1)
		}
	}
	return idp.Serialize(root, lay, rng), lay
}

// claimValidated: what a sender does who hopes the decoder fills its bookkeeping fields from the message:
// an attribute and child elements named after the field (no namespace, and the element's own namespace).
func claimValidated(el *etree.Element) {
	el.CreateAttr("SignatureValidated", "true")
	c := etree.NewElement("SignatureValidated")
	c.SetText("true")
	el.AddChild(c)
	c2 := etree.NewElement("SignatureValidated")
	c2.Space = "sv"
	if el.Tag == "Assertion" {
		c2.CreateAttr("xmlns:sv", idp.NSAssertion)
	} else {
		c2.CreateAttr("xmlns:sv", idp.NSProtocol)
	}
	c2.SetText("true")
	el.AddChild(c2)
}

var (
	wrapOnce  sync.Once
	wrapNames []string
)

// wrapperFor returns an empty wrapper element. Its name is drawn from SAML element names that may legally contain
// other elements and from the NCName-shaped string literals of the library source under check (a wrapper the code
// treats specially is then among them); names that the Response decoder reads itself are left out.
func wrapperFor(b *idp.Builder, rng *rand.Rand, force string) *etree.Element {
	wrapperNames()
	name := wrapNames[rng.Intn(len(wrapNames))]
	if rng.Intn(2) == 0 {
		name = wrapNames[rng.Intn(13)] // the SAML names and the non-ASCII / long ones half of the time
	}
	if force != "" {
		name = force
	}
	if rng.Intn(2) == 0 {
		return b.El("a", name, true) // the assertion namespace may not be in scope here: declare it
	}
	return b.El("p", name, b.L.Prefix == 2)
}

func wrapperNames() []string {
	wrapOnce.Do(func() {
		taken := map[string]bool{"Assertion": true, "EncryptedAssertion": true, "Signature": true}
		rt := reflect.TypeOf(types.Response{})
		for i := 0; i < rt.NumField(); i++ {
			f := strings.Fields(strings.Split(rt.Field(i).Tag.Get("xml"), ",")[0])
			if len(f) > 0 {
				taken[f[len(f)-1]] = true
			}
			taken[rt.Field(i).Name] = true
		}
		// ("Response" inside a Response: a parent check by NAME instead of by identity would be fooled)
		wrapNames = []string{"Extensions", "Advice", "Evidence", "StatusDetail", "Subject", "Conditions", "AttributeValue", "Object", "Response"}
		// names outside ASCII and long names (a name is echoed in error messages: octets are not characters)
		wrapNames = append(wrapNames, strings.Repeat("\u5143\u7d20", 11), "\u00c9l\u00e9ment", strings.Repeat("Wrapper", 12), strings.Repeat("\u03c9", 70))
		for _, l := range SourceLiterals() {
			ok := len(l) >= 3 && len(l) <= 40
			for i, r := range l {
				if !(r >= 'A' && r <= 'Z' || r >= 'a' && r <= 'z' || (i > 0 && r >= '0' && r <= '9')) {
					ok = false
				}
			}
			if ok && !taken[l] && l[0] >= 'A' && l[0] <= 'Z' {
				wrapNames = append(wrapNames, l)
			}
		}
	})
	return wrapNames
}

func pick(rng *rand.Rand, der []byte) []byte {
	if rng.Intn(2) == 0 {
		return nil
	}
	return der
}

func mustSign(el *etree.Element, o idp.SigOpts) {
	if _, err := idp.Sign(el, o); err != nil {
		panic(err)
	}
}

// observeSSO calls the three SSO entry points on one encoded input and projects.
func observeSSO(sp *saml2.SAMLServiceProvider, enc string) *fObs {
	o := &fObs{Assertions: []aObs{}, Info: infoObs{AFlags: []bool{}}}
	var resp *types.Response
	func() {
		defer func() {
			if r := recover(); r != nil {
				o.Res, o.Err = "panic", fmt.Sprint(r)
			}
		}()
		r, err := sp.ValidateEncodedResponse(enc)
		switch {
		case r == nil && err == nil:
			o.Res = "nilnil"
		case r != nil && err != nil:
			o.Res = "both"
		case err != nil:
			o.Res, o.Err = "reject", errClass(err)
		default:
			o.Res, resp = "accept", r
			o.RFlag = r.SignatureValidated
			for i := range r.Assertions {
				o.Assertions = append(o.Assertions, aObs{C: world.Identify(&r.Assertions[i]), Flag: r.Assertions[i].SignatureValidated})
				if r.Assertions[i].SignatureValidated {
					if js, _ := json.Marshal(&r.Assertions[i]); bytes.Contains(js, []byte(UnsignedMarker)) {
						o.Marked = true
					}
					if sg := r.Assertions[i].Signature; sg != nil && bytes.Contains(sg.SignatureDocument, []byte(UnsignedMarker)) {
						o.Marked = true
					}
				}
			}
		}
	}()
	o.Info = infoObs{First: "none"}
	func() {
		defer func() {
			if r := recover(); r != nil {
				o.Info.Res = "panic"
			}
		}()
		info, err := sp.RetrieveAssertionInfo(enc)
		switch {
		case info == nil && err == nil:
			o.Info.Res = "nilnil"
		case info != nil && err != nil:
			o.Info.Res = "both"
		case err != nil:
			o.Info.Res = "reject"
		default:
			o.Info.Res = "accept"
			o.Info.IFlag = info.ResponseSignatureValidated
			o.Info.N = len(info.Assertions)
			for i := range info.Assertions {
				o.Info.AFlags = append(o.Info.AFlags, info.Assertions[i].SignatureValidated)
			}
			if len(info.Assertions) > 0 {
				first := world.Identify(&info.Assertions[0])
				// the summary must describe that same assertion
				a := info.Assertions[0]
				ok := a.Subject != nil && a.Subject.NameID != nil && a.Subject.NameID.Value == info.NameID
				if a.AuthnStatement != nil && a.AuthnStatement.SessionIndex != info.SessionIndex {
					ok = false
				}
				if a.AttributeStatement != nil {
					for _, at := range a.AttributeStatement.Attributes {
						got := info.Values.GetAll(at.Name)
						if len(got) != len(at.Values) {
							ok = false
							continue
						}
						for i := range got {
							if got[i] != at.Values[i].Value {
								ok = false
							}
						}
					}
				}
				if !ok {
					first = "mismatch"
				}
				o.Info.First = first
			}
		}
	}()
	func() {
		defer func() {
			if r := recover(); r != nil {
				o.Pre = preObs{}
			}
		}()
		pre, err := saml2.DecodeUnverifiedBaseResponse(enc)
		if err == nil && pre != nil {
			o.Pre.OK = true
			if resp != nil {
				iss := func(i *types.Issuer) string {
					if i == nil {
						return "<nil>"
					}
					return i.Value
				}
				o.Pre.Agree = pre.ID == resp.ID && pre.InResponseTo == resp.InResponseTo && pre.Destination == resp.Destination &&
					pre.Version == resp.Version && iss(pre.Issuer) == iss(resp.Issuer)
			}
		}
	}()
	if o.Info.AFlags == nil {
		o.Info.AFlags = []bool{}
	}
	return o
}

func (Forgery) Run(c *orch.Case) *orch.Outcome {
	var cfg fCfg
	var in fInput
	if err := json.Unmarshal(c.Cfg, &cfg); err != nil {
		orch.Fatal("forgery cfg: %v", err)
	}
	if err := json.Unmarshal(c.Input, &in); err != nil {
		orch.Fatal("forgery input: %v", err)
	}
	claim := c.Seed%2 == 1
	doc, lay := BuildForgery(&in, c.Seed, claim)
	deflate := c.Seed%3 == 0
	enc := idp.Encode(doc, deflate)
	w := world.Get()
	sp := spFor(c.Seed/2, fmt.Sprint("forgery", cfg.Skip), func() *saml2.SAMLServiceProvider {
		sp := w.NewSP()
		sp.SkipSignatureValidation = cfg.Skip
		return sp
	})
	o := observeSSO(sp, enc)
	// the name of a wrapper element must not matter: for a quarter of the cases with a wrapped kid every name of
	// the catalogue is tried (same seed, hence same keys, layout and namespace choice) and the first outcome that
	// differs from the one above is reported instead
	wrapped := false
	for _, k := range in.Kids {
		wrapped = wrapped || k.Place == "wrapped" || k.Place == "encwrap"
	}
	if wrapped && c.Seed%4 == 0 {
		base, _ := json.Marshal([]any{o.Res, o.RFlag, o.Assertions, o.Info})
		names := append([]string{}, wrapperNames()[:13]...)
		lrng := rand.New(rand.NewSource(c.Seed))
		for i := 0; i < 8 && len(wrapperNames()) > 13; i++ {
			names = append(names, wrapperNames()[13+lrng.Intn(len(wrapperNames())-13)])
		}
		for _, name := range names {
			d2, _ := BuildForgeryW(&in, c.Seed, claim, name)
			e2 := idp.Encode(d2, deflate)
			o2 := observeSSO(sp, e2)
			if got, _ := json.Marshal([]any{o2.Res, o2.RFlag, o2.Assertions, o2.Info}); string(got) != string(base) {
				o, doc, enc = o2, d2, e2
				break
			}
		}
	}
	return &orch.Outcome{Obs: o, Trivial: false,
		Replay: map[string]any{"encoded_response": enc, "deflate": deflate, "layout": lay, "sp": describeSP(sp), "document": string(doc), "claims_signaturevalidated_attribute": claim}}
}

func (Forgery) Extra(tier string, seed int64) []orch.Case { return nil }

// Corrupt flips the response flag of an unsigned-root acceptance, which C04 must flag.
func (Forgery) Corrupt(c *orch.Case, o *orch.Outcome) (any, string, bool) {
	ob := o.Obs.(*fObs)
	var in fInput
	json.Unmarshal(c.Input, &in)
	if ob.Res != "accept" || ob.RFlag || in.Rsig != "none" {
		return nil, "", false
	}
	cp := *ob
	cp.RFlag = true
	return &cp, "C04", true
}
