package fam

import (
	"crypto/rsa"
	"crypto/x509"
	"encoding/json"
	"fmt"
	"sync"
	"time"

	saml2 "github.com/russellhaering/gosaml2"
	dsig "github.com/russellhaering/goxmldsig"

	"verifharness/idp"
	"verifharness/orch"
	"verifharness/world"
)

// Reconf replays histories of spec/Reconf.tla on ONE service provider whose certificate store
// and clock are re-assigned between validations.
type Reconf struct{}

type rcInput struct {
	H [][]json.RawMessage `json:"h"`
}
type rcObs struct {
	Steps []string `json:"steps"`
	Note  string   `json:"note"`
}

func (Reconf) Name() string                    { return "Reconf" }
func (Reconf) MC(tier string) (string, string) { return "MC_Reconf.tla", "MC_Reconf_" + tier + ".cfg" }
func (Reconf) Trace() (string, string)         { return "Trace_Reconf.tla", "Trace_Reconf.cfg" }
func (Reconf) Cap(tier string) int             { return 0 }
func (Reconf) Layouts(tier string) int         { return 1 }
func (Reconf) Extra(string, int64) []orch.Case { return nil }

var (
	rcOnce sync.Once
	rcMsgs map[string]string // kind/signer -> encoded message
)

var (
	idpNextOnce sync.Once
	idpNextKP   *idp.KeyPair
)

// idpNext: the IdP's next signing certificate, valid from clock position 12 (T0 + 6 s) on.
func idpNext() *idp.KeyPair {
	idpNextOnce.Do(func() {
		idpNextKP = idp.Cert(idp.RSAKey("idpN"), "idp-next", world.T0.Add(6*time.Second), world.T0.Add(24*time.Hour))
	})
	return idpNextKP
}

func reconfMessages() map[string]string {
	rcOnce.Do(func() {
		w := world.Get()
		rcMsgs = map[string]string{}
		spk := spWindowCert()
		for name, kp := range map[string]*idp.KeyPair{"A": w.IdpA, "B": w.IdpB, "N": idpNext()} {
			b := idp.NewBuilder(idp.Layout{Prefix: 0}, 21)
			sig := idp.DefaultSig(kp.Key, kp.DER)
			// sso: Response signed at the root
			root := b.ResponseEl(genuineRoot())
			root.AddChild(b.AssertionEl(world.Content("GA1"), false))
			mustSign(root, sig)
			rcMsgs["sso/"+name] = idp.Encode(idp.Plain(root), false)
			// ssoenc: unsigned Response, assertion signed on its own and encrypted to the SP
			ae := b.AssertionEl(world.Content("GA1"), true)
			mustSign(ae, sig)
			ee, err := b.EncryptedAssertion(idp.Plain(ae), idp.EncOpts{DataAlg: idp.EncAES128GCM, KeyTransport: idp.KtOAEP,
				Pub: &spk.Key.(*rsa.PrivateKey).PublicKey, Recipient: spk.DER})
			if err != nil {
				panic(err)
			}
			r2 := b.ResponseEl(genuineRoot())
			r2.AddChild(ee)
			rcMsgs["ssoenc/"+name] = idp.Encode(idp.Plain(r2), true)
			lr := b.ResponseEl(logoutSpec("req", "_lr-1"))
			mustSign(lr, sig)
			rcMsgs["logoutReq/"+name] = idp.Encode(idp.Plain(lr), false)
			lp := b.ResponseEl(logoutSpec("resp", "_lresp-1"))
			mustSign(lp, sig)
			rcMsgs["logoutResp/"+name] = idp.Encode(idp.Plain(lp), true)
		}
	})
	return rcMsgs
}

func (Reconf) Run(c *orch.Case) *orch.Outcome {
	var in rcInput
	if json.Unmarshal(c.Input, &in) != nil {
		orch.Fatal("reconf: bad case")
	}
	w := world.Get()
	msgs := reconfMessages()
	spk := spWindowCert()
	sp := w.NewSP()
	sp.SPKeyStore = dsig.TLSCertKeyStore{Certificate: [][]byte{spk.DER}, PrivateKey: spk.Key}
	sp.ValidateEncryptionCert = true
	setStore := func(s string) {
		var roots []*x509.Certificate
		if s == "NA" {
			roots = append(roots, idpNext().Cert) // the not-yet-valid successor is listed first
		}
		if s == "A" || s == "AB" || s == "NA" {
			roots = append(roots, w.IdpA.Cert)
		}
		if s == "B" || s == "AB" {
			roots = append(roots, w.IdpB.Cert)
		}
		sp.IDPCertificateStore = &dsig.MemoryX509CertificateStore{Roots: roots}
	}
	setClock := func(t int) { sp.Clock = dsig.NewFakeClockAt(world.T0.Add(time.Duration(t) * 500 * time.Millisecond)) }
	setStore("NA")
	setClock(8)
	o := &rcObs{Steps: []string{}}
	for _, op := range in.H {
		var kind string
		json.Unmarshal(op[0], &kind)
		switch kind {
		case "store":
			var s string
			json.Unmarshal(op[1], &s)
			setStore(s)
			o.Steps = append(o.Steps, "na")
		case "clock":
			var t int
			json.Unmarshal(op[1], &t)
			setClock(t)
			o.Steps = append(o.Steps, "na")
		case "val":
			var k, s string
			json.Unmarshal(op[1], &k)
			json.Unmarshal(op[2], &s)
			res := func() (res string) {
				defer func() {
					if r := recover(); r != nil {
						res = "panic"
						o.Note = fmt.Sprint(r)
					}
				}()
				enc := msgs[k+"/"+s]
				switch k {
				case "sso", "ssoenc":
					r, err := sp.ValidateEncodedResponse(enc)
					res, _ = classify(r == nil, err)
					if err == nil {
						// the info entry point must agree
						if _, err2 := sp.RetrieveAssertionInfo(enc); err2 != nil {
							res = "reject"
						}
					}
				case "logoutReq":
					r, err := sp.ValidateEncodedLogoutRequestPOST(enc)
					res, _ = classify(r == nil, err)
					if err == nil && !r.SignatureValidated {
						res = "reject" // accepted as unsigned would be a downgrade
					}
				default:
					r, err := sp.ValidateEncodedLogoutResponsePOST(enc)
					res, _ = classify(r == nil, err)
					if err == nil && !r.SignatureValidated {
						res = "reject"
					}
				}
				return res
			}()
			o.Steps = append(o.Steps, res)
		}
	}
	return &orch.Outcome{Obs: o, Replay: map[string]any{"history": in.H, "note": "one SP; IDPCertificateStore / Clock fields re-assigned between calls"}}
}

func (Reconf) Corrupt(c *orch.Case, o *orch.Outcome) (any, string, bool) {
	ob := o.Obs.(*rcObs)
	n := len(ob.Steps)
	if n == 0 || ob.Steps[n-1] != "reject" {
		return nil, "", false
	}
	cp := rcObs{Steps: append([]string{}, ob.Steps...)}
	cp.Steps[n-1] = "accept"
	return &cp, "C02", true
}

var _ = saml2.ErrSaml{}
