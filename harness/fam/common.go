// Package fam holds one concretiser/driver/projection per specification family.
package fam

import (
	"encoding/json"
	"encoding/pem"
	"errors"
	"fmt"
	"os"
	"strings"
	"sync"

	saml2 "github.com/russellhaering/gosaml2"
	dsig "github.com/russellhaering/goxmldsig"
)

// ErrObs is the abstract view of a Go error: its typed class and the element or
// attribute names it carries, lower-cased. Message text is never compared.
type ErrObs struct {
	Cls     string   `json:"cls"`  // none | typed | other
	Type    string   `json:"type"` // ErrInvalidValue | ErrMissingElement | ErrParsing | ""
	Names   []string `json:"names"`
	Wrapped bool     `json:"wrapped"` // arrived inside ErrVerification
	Reason  string   `json:"reason"`
}

// MarshalJSON never emits null (TLC's JSON reader refuses it): an absent name list is [].
func (e ErrObs) MarshalJSON() ([]byte, error) {
	type plain ErrObs
	p := plain(e)
	if p.Names == nil {
		p.Names = []string{}
	}
	if p.Cls == "" {
		p.Cls = "none"
	}
	return json.Marshal(p)
}

func projectErr(err error) ErrObs {
	o := ErrObs{Cls: "none", Names: []string{}}
	if err == nil {
		return o
	}
	var ev saml2.ErrVerification
	if errors.As(err, &ev) {
		o.Wrapped = true
		err = ev.Cause
	}
	add := func(ss ...string) {
		for _, s := range ss {
			if s != "" {
				o.Names = append(o.Names, token(s))
			}
		}
	}
	switch e := err.(type) {
	case saml2.ErrInvalidValue:
		o.Cls, o.Type, o.Reason = "typed", "ErrInvalidValue", strings.ToLower(e.Reason)
		add(e.Key)
	case saml2.ErrMissingElement:
		o.Cls, o.Type = "typed", "ErrMissingElement"
		add(e.Tag, e.Attribute)
	case saml2.ErrParsing:
		o.Cls, o.Type = "typed", "ErrParsing"
		add(e.Tag)
	default:
		o.Cls = "other"
		if err == dsig.ErrMissingSignature {
			o.Reason = "missing-signature"
		}
	}
	return o
}

// token lower-cases and keeps letters and digits only ("SAML version" -> "samlversion").
func token(s string) string {
	var sb strings.Builder
	for _, r := range strings.ToLower(s) {
		if (r >= 'a' && r <= 'z') || (r >= '0' && r <= '9') {
			sb.WriteRune(r)
		}
	}
	return sb.String()
}

func errClass(err error) string {
	e := projectErr(err)
	if e.Cls == "typed" {
		return e.Type + ":" + strings.Join(e.Names, ",")
	}
	if err != nil {
		s := err.Error()
		if len(s) > 120 {
			s = s[:120]
		}
		return "other:" + s
	}
	return "none"
}

// orchTier is the tier of the running check (bin/check exports VERIF_TIER).
func orchTier() string {
	if t := os.Getenv("VERIF_TIER"); t == "thorough" {
		return t
	}
	return "quick"
}

func pemCert(der []byte) string {
	return string(pem.EncodeToMemory(&pem.Block{Type: "CERTIFICATE", Bytes: der}))
}

func describeSP(sp *saml2.SAMLServiceProvider) map[string]any {
	m := map[string]any{
		"IdentityProviderIssuer": sp.IdentityProviderIssuer, "AssertionConsumerServiceURL": sp.AssertionConsumerServiceURL,
		"ServiceProviderSLOURL": sp.ServiceProviderSLOURL, "AudienceURI": sp.AudienceURI, "SkipSignatureValidation": sp.SkipSignatureValidation,
		"ValidateEncryptionCert": sp.ValidateEncryptionCert, "MaximumDecompressedBodySize": sp.MaximumDecompressedBodySize,
		"clock": fmt.Sprint(sp.Clock.Now().UTC()),
	}
	if sp.IDPCertificateStore != nil {
		if roots, err := sp.IDPCertificateStore.Certificates(); err == nil {
			var ps []string
			for _, r := range roots {
				ps = append(ps, pemCert(r.Raw))
			}
			m["idp_store"] = ps
		}
	}
	return m
}

var sharedSPs sync.Map

// spFor returns the service provider for a case. On odd seeds it is a long-lived instance shared by
// every case of the run with the same configuration key (and used from all driver goroutines at
// once); on even seeds a fresh one. A correct library cannot tell the difference (C17); state kept
// across calls, pooled buffers and caches can.
func spFor(seed int64, key string, build func() *saml2.SAMLServiceProvider) *saml2.SAMLServiceProvider {
	if seed%2 == 0 {
		return build()
	}
	if v, ok := sharedSPs.Load(key); ok {
		return v.(*saml2.SAMLServiceProvider)
	}
	v, _ := sharedSPs.LoadOrStore(key, build())
	return v.(*saml2.SAMLServiceProvider)
}
