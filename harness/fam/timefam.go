package fam

import (
	"encoding/json"
	"fmt"
	"math/rand"
	"time"

	"github.com/beevik/etree"
	saml2 "github.com/russellhaering/gosaml2"
	dsig "github.com/russellhaering/goxmldsig"

	"verifharness/idp"
	"verifharness/orch"
	"verifharness/world"
)

// Time concretises spec/Time.tla.
type Time struct{}

type tv struct {
	K string `json:"k"`
	T int    `json:"t"`
}
type tmInput struct {
	Nb   tv   `json:"nb"`
	Cnoa tv   `json:"cnoa"`
	Scs  []tv `json:"scs"`
}
type tmCfg struct {
	Now int `json:"now"`
}
type tmInfo struct {
	Res  string `json:"res"`
	Warn bool   `json:"warn"`
}
type tmObs struct {
	Res     string `json:"res"`
	Expired bool   `json:"expired"`
	Info    tmInfo `json:"info"`
	Err     ErrObs `json:"err"`
}

func (Time) Name() string                    { return "Time" }
func (Time) MC(tier string) (string, string) { return "MC_Time.tla", "MC_Time_" + tier + ".cfg" }
func (Time) Trace() (string, string)         { return "Trace_Time.tla", "Trace_Time.cfg" }
func (Time) Cap(tier string) int             { return 0 }
func (Time) Layouts(tier string) int {
	if tier == "thorough" {
		return 2
	}
	return 1
}
func (Time) Extra(string, int64) []orch.Case { return nil }

var zones = []*time.Location{time.UTC, time.FixedZone("", 5*3600+1800), time.FixedZone("", -8*3600), time.FixedZone("", 14*3600), time.FixedZone("", -3600-1800)}

// RenderInstant writes t in a random RFC 3339 form (zone offset, fractional digits).
func RenderInstant(t time.Time, rng *rand.Rand) string {
	z := zones[rng.Intn(len(zones))]
	lt := t.In(z)
	var frac string
	if t.Nanosecond() == 0 {
		// (RFC 3339 puts no limit on the number of fraction digits)
		frac = []string{"", ".0", ".000", ".000000000", ".000000000000", ".00000000000000000000"}[rng.Intn(6)]
	} else {
		s := fmt.Sprintf("%09d", t.Nanosecond())
		for len(s) > 1 && s[len(s)-1] == '0' {
			s = s[:len(s)-1]
		}
		pad := []int{0, 2, 5, 8, 11, 19}[rng.Intn(6)]
		for i := 0; i < pad && len(s) < 20; i++ {
			s += "0"
		}
		frac = "." + s
	}
	base := lt.Format("2006-01-02T15:04:05")
	var off string
	if z == time.UTC && rng.Intn(2) == 0 {
		off = "Z"
	} else {
		off = lt.Format("-07:00")
	}
	return base + frac + off
}

// malformedTimes: strings that are not RFC 3339 date-times. Besides plainly wrong shapes they include near misses
// of an instant an hour AFTER every clock used here (a field out of range, a missing or damaged zone), so that a
// parser that "repairs" them yields a bound that has not been reached. Candidates that Go's own RFC 3339 parser
// accepts are dropped at start-up (what counts as parsable is then beyond doubt).
var malformedTimes = func() []string {
	cands := []string{"not-a-time", "2031-05-06", "2031-05-06T07:08:09", "06/05/2031 07:08", "2031-05-06T07:08:09+0530", "2031-05-06 07:08:09Z", "",
		"2031-05-06T08:60:00Z", "2031-05-06T08:60:00.5Z", "2031-05-06T08:60:00+02:00", "2031-05-06T24:00:00Z", "2031-05-06T25:08:09Z",
		"2031-13-06T08:08:09Z", "2031-00-06T08:08:09Z", "2031-05-32T08:08:09Z", "2031-02-30T08:08:09Z", "2031-05-00T08:08:09Z",
		"2031-05-06T08:08:61Z", "2031-5-6T8:8:9Z", "31-05-06T08:08:09Z", "+2031-05-06T08:08:09Z", "2031-05-06T08:08:09ZZ",
		"2031-05-06T08:08:09Z junk", "2031-05-06T08:08:09+02:00:00", "2031-05-06T08:08:09+2", "2031-05-06T08:08:09.Z",
		"2031-05-06T08:08Z", "2031-05-06T08Z", "20310506T080809Z", "2031-05-06T08:08:09 +02:00", "２０３１-05-06T08:08:09Z", "2031-05-06T08:08:09\u2212" + "02:00"}
	var out []string
	for _, c := range cands {
		if _, err := time.Parse(time.RFC3339, c); err != nil {
			out = append(out, c)
		}
	}
	return out
}()

func renderTV(v tv, rng *rand.Rand) *string {
	switch v.K {
	case "absent":
		return nil
	case "malformed":
		return idp.S(malformedTimes[rng.Intn(len(malformedTimes))])
	case "ancient":
		// well-formed instants before every clock: Go's zero time and years on either side of what fits into 64-bit nanoseconds
		anc := []string{"0001-01-01T00:00:00Z", "0001-01-01T00:00:00.000Z", "0001-01-01T00:00:00+00:00", "0001-01-01T05:30:00+05:30",
			"1500-01-01T00:00:00Z", "1677-09-21T00:12:43Z", "1677-09-21T00:12:44Z", "1066-10-14T09:00:00+01:00", "1969-12-31T23:59:59.999999999Z", "1970-01-01T00:00:00Z"}
		return idp.S(anc[rng.Intn(len(anc))])
	case "farfuture":
		// well-formed instants after every clock, on either side of what fits into 64-bit nanoseconds
		fut := []string{"2262-04-11T23:47:16Z", "2262-04-11T23:47:17Z", "2300-01-01T00:00:00Z", "2554-07-21T23:34:33Z", "9999-12-31T23:59:59Z", "2100-02-28T12:00:00.123456789+14:00"}
		return idp.S(fut[rng.Intn(len(fut))])
	}
	return idp.S(RenderInstant(world.Tick(v.T), rng))
}

func (Time) Run(c *orch.Case) *orch.Outcome {
	var cfg tmCfg
	var in tmInput
	if json.Unmarshal(c.Cfg, &cfg) != nil || json.Unmarshal(c.Input, &in) != nil {
		orch.Fatal("time: bad case")
	}
	w := world.Get()
	rng := rand.New(rand.NewSource(c.Seed))
	lay := layoutFor(rng, true)
	b := idp.NewBuilder(lay, c.Seed+1)
	root := b.ResponseEl(genuineRoot())
	var els []*etree.Element
	for i, sc := range in.Scs {
		spec := world.Content([]string{"GA1", "GA2"}[i%2])
		spec.Subject.Conf.Data.NotOnOrAfter = renderTV(sc, rng)
		// nothing obliges the assertions of a Response to have distinct (or any) identifiers: under a signed Response
		// they may share one, or have none
		if c.Seed%2 == 0 && len(in.Scs) > 1 {
			switch (c.Seed / 2) % 3 {
			case 1:
				spec.ID = "_assert-same"
			case 2:
				spec.NoID = true
			}
		}
		if i == 0 {
			spec.Conditions.NotBefore = renderTV(in.Nb, rng)
			spec.Conditions.NotOnOrAfter = renderTV(in.Cnoa, rng)
		}
		el := b.AssertionEl(spec, false)
		root.AddChild(el)
		els = append(els, el)
	}
	b.Decorate(root)
	if c.Seed%2 == 0 {
		mustSign(root, idp.DefaultSig(w.IdpA.Key, w.IdpA.DER))
	} else {
		for _, el := range els {
			mustSign(el, idp.DefaultSig(w.IdpA.Key, w.IdpA.DER))
		}
	}
	doc := idp.Serialize(root, lay, rng)
	enc := idp.Encode(doc, c.Seed%3 == 0)
	sp := spFor(c.Seed, fmt.Sprint("time", cfg.Now), func() *saml2.SAMLServiceProvider {
		sp := w.NewSP()
		sp.Clock = dsig.NewFakeClockAt(world.Tick(cfg.Now))
		return sp
	})
	o := &tmObs{}
	func() {
		defer func() {
			if r := recover(); r != nil {
				o.Res = "panic"
			}
		}()
		r, err := sp.ValidateEncodedResponse(enc)
		o.Res, _ = classify(r == nil, err)
		o.Err = projectErr(err)
		if o.Res == "reject" && o.Err.Type == "ErrInvalidValue" {
			for _, n := range o.Err.Names {
				if n == "notonorafter" {
					o.Expired = true
				}
			}
		}
	}()
	func() {
		defer func() {
			if r := recover(); r != nil {
				o.Info.Res = "panic"
			}
		}()
		r, err := sp.RetrieveAssertionInfo(enc)
		o.Info.Res, _ = classify(r == nil, err)
		if o.Info.Res == "accept" && r.WarningInfo != nil {
			o.Info.Warn = r.WarningInfo.InvalidTime
		}
	}()
	labels := []string{}
	for _, sc := range in.Scs {
		if sc.K == "tick" && sc.T == cfg.Now {
			labels = append(labels, "now=scnoa")
		}
	}
	if in.Cnoa.K == "tick" && in.Cnoa.T == cfg.Now {
		labels = append(labels, "now=cnoa")
	}
	return &orch.Outcome{Obs: o, Labels: labels, Replay: map[string]any{"encoded_response": enc, "document": string(doc), "sp": describeSP(sp), "layout": lay}}
}

func (Time) Corrupt(c *orch.Case, o *orch.Outcome) (any, string, bool) {
	ob := o.Obs.(*tmObs)
	if ob.Info.Res != "accept" {
		return nil, "", false
	}
	cp := *ob
	cp.Info.Warn = !cp.Info.Warn
	return &cp, "C05", true
}
