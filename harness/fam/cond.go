package fam

import (
	"strconv"
	"math"
	"encoding/json"
	"math/rand"
	"strings"
	"time"

	"github.com/beevik/etree"
	saml2 "github.com/russellhaering/gosaml2"

	"verifharness/idp"
	"verifharness/orch"
	"verifharness/world"
)

// Cond concretises spec/Cond.tla.
type Cond struct{}

type cProxy struct {
	Present bool     `json:"present"`
	Count   string   `json:"count"`
	Aud     []string `json:"aud"`
}
type cInput struct {
	Ars   [][]string `json:"ars"`
	Otu   bool       `json:"otu"`
	Proxy cProxy     `json:"proxy"`
	Win   string     `json:"win"`
	Authn bool       `json:"authn"`
}
type cCfg struct {
	Aud string `json:"aud"`
}
type cProxyObs struct {
	Present bool     `json:"present"`
	Count   string   `json:"count"`
	Aud     []string `json:"aud"`
}
type cObs struct {
	Res   string    `json:"res"`
	Time  bool      `json:"time"`
	Nia   bool      `json:"nia"`
	Otu   bool      `json:"otu"`
	Proxy cProxyObs `json:"proxy"`
}

func (Cond) Name() string                    { return "Cond" }
func (Cond) MC(tier string) (string, string) { return "MC_Cond.tla", "MC_Cond_" + tier + ".cfg" }
func (Cond) Trace() (string, string)         { return "Trace_Cond.tla", "Trace_Cond.cfg" }
func (Cond) Cap(tier string) int {
	if tier == "thorough" {
		return 60000
	}
	return 16000
}
func (Cond) Layouts(tier string) int         { return 1 }
func (Cond) Extra(string, int64) []orch.Case { return nil }

var audTok = map[string]string{
	"match": world.Audience, "case": strings.ToUpper(world.Audience[:20]) + world.Audience[20:], "slash": world.Audience + "/",
	"ws": " " + world.Audience + " ", "other": "https://other.example/audience", "emptyaud": "",
}

// cfgAudience is the configured AudienceURI of a configuration kind.
func cfgAudience(kind string) string {
	switch kind {
	case "empty":
		return ""
	case "padded": // legal, if unwise: the comparison is exact, so only an identically padded Audience matches
		return "\t" + world.Audience + " "
	case "space":
		return " "
	}
	return world.Audience
}

func tokOfAud(s string) string {
	for k, v := range audTok {
		if v == s {
			return k
		}
	}
	return "unknown"
}

func (Cond) Run(c *orch.Case) *orch.Outcome {
	var cfg cCfg
	var in cInput
	if json.Unmarshal(c.Cfg, &cfg) != nil || json.Unmarshal(c.Input, &in) != nil {
		orch.Fatal("cond: bad case")
	}
	w := world.Get()
	rng := rand.New(rand.NewSource(c.Seed))
	lay := layoutFor(rng, true)
	b := idp.NewBuilder(lay, c.Seed+1)
	root := b.ResponseEl(genuineRoot())
	spec := world.Content("GA1")
	spec.Conditions.AudRestr = nil
	for _, ar := range in.Ars {
		var vs []string
		for _, t := range ar {
			if t == "match" && cfg.Aud != "empty" {
				vs = append(vs, cfgAudience(cfg.Aud)) // "match" is byte-identical to what is configured
			} else {
				vs = append(vs, audTok[t])
			}
		}
		if vs == nil {
			vs = []string{}
		}
		spec.Conditions.AudRestr = append(spec.Conditions.AudRestr, vs)
	}
	spec.Conditions.OneTimeUse = in.Otu
	if !in.Authn {
		spec.Authn = nil // an assertion without an AuthnStatement is legal; the warnings do not depend on it
	}
	switch in.Win { // the subject confirmation stays valid: only the Conditions window moves
	case "before":
		spec.Conditions.NotBefore = idp.S(world.RFC(world.Now.Add(time.Minute)))
	case "after":
		spec.Conditions.NotOnOrAfter = idp.S(world.RFC(world.Now.Add(-time.Minute)))
	}
	if in.Proxy.Present {
		p := &idp.Proxy{}
		switch in.Proxy.Count {
		case "0":
			p.Count = idp.I(0)
		case "1":
			p.Count = idp.I(1)
		case "5":
			p.Count = idp.I(5)
		case "neg":
			p.Count = idp.I(-1)
		case "max":
			p.Count = idp.I(math.MaxInt64)
		}
		for _, t := range in.Proxy.Aud {
			p.Audiences = append(p.Audiences, audTok[t])
		}
		spec.Conditions.Proxy = p
	}
	el := b.AssertionEl(spec, false)
	root.AddChild(el)
	els := []*etree.Element{el}
	// a second assertion with contrary conditions: warnings must come from the first
	if c.Seed%2 == 0 {
		s2 := world.Content("GA2")
		s2.Conditions.AudRestr = [][]string{{"https://other.example/audience"}}
		if len(in.Ars) > 0 {
			s2.Conditions.AudRestr = [][]string{{world.Audience}}
		}
		s2.Conditions.OneTimeUse = !in.Otu
		if !in.Proxy.Present {
			s2.Conditions.Proxy = &idp.Proxy{Count: idp.I(3), Audiences: []string{"https://other.example/audience"}}
		}
		e2 := b.AssertionEl(s2, false)
		root.AddChild(e2)
		els = append(els, e2)
	}
	b.Decorate(root)
	// the IdP signs the Response, or every assertion on its own (by seed)
	if (c.Seed/2)%2 == 0 {
		mustSign(root, idp.DefaultSig(w.IdpA.Key, w.IdpA.DER))
	} else {
		for _, e := range els {
			mustSign(e, idp.DefaultSig(w.IdpA.Key, w.IdpA.DER))
		}
	}
	doc := idp.Serialize(root, lay, rng)
	enc := idp.Encode(doc, c.Seed%3 == 0)
	sp := spFor(c.Seed/4, "cond"+cfg.Aud, func() *saml2.SAMLServiceProvider {
		sp := w.NewSP()
		sp.AudienceURI = cfgAudience(cfg.Aud)
		return sp
	})
	o := &cObs{Proxy: cProxyObs{Aud: []string{}, Count: "0"}}
	func() {
		defer func() {
			if r := recover(); r != nil {
				o.Res = "panic"
			}
		}()
		r, err := sp.RetrieveAssertionInfo(enc)
		o.Res, _ = classify(r == nil, err)
		if o.Res == "accept" && r.WarningInfo != nil {
			o.Nia, o.Otu, o.Time = r.WarningInfo.NotInAudience, r.WarningInfo.OneTimeUse, r.WarningInfo.InvalidTime
			if p := r.WarningInfo.ProxyRestriction; p != nil {
				o.Proxy.Present = true
				switch p.Count {
				case 0, 1, 5:
					o.Proxy.Count = strconv.Itoa(p.Count)
				case -1:
					o.Proxy.Count = "neg"
				case math.MaxInt64:
					o.Proxy.Count = "max"
				default:
					o.Proxy.Count = "other:" + strconv.Itoa(p.Count)
				}
				for _, a := range p.Audience {
					o.Proxy.Aud = append(o.Proxy.Aud, tokOfAud(a))
				}
			}
		}
	}()
	return &orch.Outcome{Obs: o, Replay: map[string]any{"encoded_response": enc, "document": string(doc), "sp": describeSP(sp), "layout": lay}}
}

func (Cond) Corrupt(c *orch.Case, o *orch.Outcome) (any, string, bool) {
	ob := o.Obs.(*cObs)
	if ob.Res != "accept" {
		return nil, "", false
	}
	cp := *ob
	cp.Nia = !cp.Nia
	return &cp, "C06", true
}
