package fam

import (
	"bytes"
	"compress/flate"
	"encoding/base64"
	"encoding/json"
	"fmt"
	"io"
	"math/rand"
	"net/http"
	"net/http/httptest"
	"net/url"
	"sort"
	"strings"

	"github.com/beevik/etree"
	saml2 "github.com/russellhaering/gosaml2"
	dsig "github.com/russellhaering/goxmldsig"

	"verifharness/idp"
	"verifharness/orch"
	"verifharness/pyproj"
	"verifharness/world"
)

// Bindings concretises spec/Bindings.tla.
type Bindings struct{}

type bInput struct {
	Binding string `json:"binding"`
	Flow    string `json:"flow"`
	Relay   string `json:"relay"`
	Idpurl  string `json:"idpurl"`
	SignReq bool   `json:"signReq"`
	Alg     string `json:"alg"`
	Keycfg  string `json:"keycfg"`
	InLimit string `json:"inlimit"`
	Keytype string `json:"keytype"`
	Doc     string `json:"doc"`
}
type bObs struct {
	Built        bool   `json:"built"`
	EndpointOK   bool   `json:"endpoint_ok"`
	ParamsOK     bool   `json:"params_ok"`
	RequestOK    bool   `json:"request_ok"`
	RelayPresent bool   `json:"relay_present"`
	RelayOK      bool   `json:"relay_ok"`
	SigPresent   bool   `json:"sig_present"`
	Sigalg       string `json:"sigalg"`
	SigOK        bool   `json:"sig_ok"`
	VerifiedBy   string `json:"verified_by"`
	// post
	Forms         int    `json:"forms"`
	ActionOK      bool   `json:"action_ok"`
	FieldCount    int    `json:"field_count"`
	FieldOK       bool   `json:"field_ok"`
	RepeatOK      bool   `json:"repeat_ok"`
	ScriptSubmits bool   `json:"script_submits"`
	SkeletonOK    bool   `json:"skeleton_ok"`
	Note          string `json:"note"`
}

func (Bindings) Name() string { return "Bindings" }
func (Bindings) MC(tier string) (string, string) {
	return "MC_Bindings.tla", "MC_Bindings_" + tier + ".cfg"
}
func (Bindings) Trace() (string, string) { return "Trace_Bindings.tla", "Trace_Bindings.cfg" }
func (Bindings) Cap(tier string) int     { return 0 }
func (Bindings) Layouts(tier string) int {
	if tier == "thorough" {
		return 3
	}
	return 1
}
func (Bindings) Extra(string, int64) []orch.Case { return nil }

func relayFor(class string, rng *rand.Rand) string {
	switch class {
	case "empty":
		return ""
	case "blank":
		// a non-empty relay state made of white space only: it is given, so it is delivered
		return []string{" ", "\t", "\r\n", "  \t \n", "\n", "   "}[rng.Intn(6)]
	case "plain":
		return "state-" + GenXMLString(rng, 0, 20)
	case "escape":
		// characters that mean something in a query string; on a third of the draws every "%" starts a VALID escape
		// (a relay state is opaque: nobody may decode it on the way)
		if rng.Intn(3) == 0 {
			return []string{"next=%2Fhome%3Ftab%3D2", "100%25+done", "%3Cscript%3Ealert(1)%3C%2Fscript%3E", "%E2%9C%93%20ok%0D%0A"}[rng.Intn(4)] + GenXMLString(rng, 0, 4)
		}
		return "a b+c&d=e%f/?#" + GenXMLString(rng, 0, 6) + "%20+&=;"
	case "html":
		return `"><img src=x onerror=alert(1)><x y="` + GenXMLString(rng, 1, 10) + `' onmouseover='x`
	case "script":
		return `</script><script>alert(1)//` + GenXMLString(rng, 1, 8) + `</form><form action="https://evil.example/">`
	case "newline":
		return "line1\nline2\tcol sep\r\nline3\rline4" + GenXMLString(rng, 0, 5) + "\n"
	case "binary":
		// octets that are not UTF-8 (an opaque token, compressed state): a relay state is a string of octets
		return []string{"\xff", "tok\xc3", "a\x80b", "\xed\xa0\x80", "\x1f\x8b\x08\x00state"}[rng.Intn(5)] + GenXMLString(rng, 0, 4)
	case "control":
		// C0 controls other than NUL, DEL, and the two non-characters at the end of the BMP
		return "ff\x0c esc\x1b soh\x01 del\x7f us\x1f \uffff \ufffe " + GenXMLString(rng, 0, 4)
	case "nonascii":
		return "zażółć 中文 😀 " + GenXMLString(rng, 3, 12)
	case "long":
		return strings.Repeat("x"+GenXMLString(rng, 4, 30), 80)
	default:
		return GenAnyXMLString(rng, 60) + "&\"'<>"
	}
}

const idpQuery = "?foo=bar&x=1%202&tenant=a%26b"
const idpFragment = "#/saml/login?next=1&SAMLRequest=zzz"

func hasQuery(kind string) bool    { return kind == "query" || kind == "queryfragment" || kind == "suffixquery" }

const idpSuffixQuery = "&DefaultRelayState=%2Fportal&LastSigAlg=none&XSAMLRequest=zzz&ASignature=q"
func hasFragment(kind string) bool { return kind == "fragment" || kind == "queryfragment" }

func bindingsSP(in *bInput) (*saml2.SAMLServiceProvider, string) {
	ks := outboundKeys()
	w := world.Get()
	sp := w.NewSP()
	sp.SPKeyStore = nil
	sp.SignAuthnRequests = in.SignReq
	sp.NameIdFormat = saml2.NameIdFormatTransient
	if hasQuery(in.Idpurl) {
		sp.IdentityProviderSSOURL += idpQuery
		sp.IdentityProviderSLOURL += idpQuery
	}
	if in.Idpurl == "suffixquery" {
		sp.IdentityProviderSSOURL += idpSuffixQuery
		sp.IdentityProviderSLOURL += idpSuffixQuery
	}
	if hasFragment(in.Idpurl) {
		sp.IdentityProviderSSOURL += idpFragment
		sp.IdentityProviderSLOURL += idpFragment
	}
	if in.InLimit == "small" {
		sp.MaximumDecompressedBodySize = 200 // an inbound bound: below the size of every outgoing message
	}
	if in.Doc == "builtCR" {
		// caller strings whose serialised form differs between escaping styles
		sp.ServiceProviderIssuer = "https://sp.example.com/meta\rdata\tx\ny "
		sp.AssertionConsumerServiceURL = "https://sp.example.com/acs?a=1\tb\r"
	}
	ec := in.Keytype == "ec"
	name := in.Keycfg
	switch in.Keycfg {
	case "encField":
		sp.SPKeyStore = dsig.TLSCertKeyStore{Certificate: [][]byte{ks["encField"].DER}, PrivateKey: ks["encField"].Key}
	case "encSetter":
		if ec {
			name = "encSetterEC"
		}
		sp.SetSPKeyStore(&saml2.KeyStore{Signer: ks[name].Key, Cert: ks[name].DER})
	case "signField":
		sp.SPKeyStore = dsig.TLSCertKeyStore{Certificate: [][]byte{ks["encField"].DER}, PrivateKey: ks["encField"].Key}
		sp.SPSigningKeyStore = dsig.TLSCertKeyStore{Certificate: [][]byte{ks["signField"].DER}, PrivateKey: ks["signField"].Key}
	case "signFieldEncSetter":
		sp.SetSPKeyStore(&saml2.KeyStore{Signer: ks["encSetter"].Key, Cert: ks["encSetter"].DER})
		sp.SPSigningKeyStore = dsig.TLSCertKeyStore{Certificate: [][]byte{ks["signField"].DER}, PrivateKey: ks["signField"].Key}
	case "signSetter":
		sp.SPKeyStore = dsig.TLSCertKeyStore{Certificate: [][]byte{ks["encField"].DER}, PrivateKey: ks["encField"].Key}
		if ec {
			name = "signSetterEC"
		}
		sp.SetSPSigningKeyStore(&saml2.KeyStore{Signer: ks[name].Key, Cert: ks[name].DER})
	}
	for uri, tok := range sigTok {
		if tok == in.Alg {
			sp.SignAuthnRequestsAlgorithm = uri
		}
	}
	return sp, name
}

func splitRawQuery(raw string) (keys []string, vals map[string][]string) {
	vals = map[string][]string{}
	if raw == "" {
		return
	}
	for _, p := range strings.Split(raw, "&") {
		k, v := p, ""
		if i := strings.Index(p, "="); i >= 0 {
			k, v = p[:i], p[i+1:]
		}
		keys = append(keys, k)
		vals[k] = append(vals[k], v)
	}
	return
}

func analyseRedirect(in *bInput, sp *saml2.SAMLServiceProvider, u, relay string, doc []byte, o *bObs) {
	endpoint := sp.IdentityProviderSSOURL
	if in.Flow == "logoutReq" {
		endpoint = sp.IdentityProviderSLOURL
	}
	cut := func(s, sep string) (string, string) {
		if i := strings.Index(s, sep); i >= 0 {
			return s[:i], s[i+1:]
		}
		return s, ""
	}
	// RFC 3986: the fragment starts at the first '#', the query at the first '?' before it
	wantBase, wantFrag := cut(endpoint, "#")
	wantBase, _ = cut(wantBase, "?")
	base, frag := cut(u, "#")
	base, rawq := cut(base, "?")
	o.EndpointOK = base == wantBase && frag == wantFrag
	_, vals := splitRawQuery(rawq)
	one := func(k string) (string, bool) {
		v := vals[k]
		if len(v) != 1 {
			return "", false
		}
		return v[0], true
	}
	o.ParamsOK = true
	if in.Idpurl == "suffixquery" {
		for k, want := range map[string]string{"DefaultRelayState": "/portal", "LastSigAlg": "none", "XSAMLRequest": "zzz", "ASignature": "q"} {
			v, ok := one(k)
			dv, err := url.QueryUnescape(v)
			if !ok || err != nil || dv != want {
				o.ParamsOK = false
			}
		}
	}
	if hasQuery(in.Idpurl) {
		for k, want := range map[string]string{"foo": "bar", "x": "1 2", "tenant": "a&b"} {
			v, ok := one(k)
			dv, err := url.QueryUnescape(v)
			if !ok || err != nil || dv != want {
				o.ParamsOK = false
			}
		}
	}
	if v1, ok := one("SAMLRequest"); ok {
		if dv, err := url.QueryUnescape(v1); err == nil {
			if comp, err := base64.StdEncoding.DecodeString(dv); err == nil {
				if inflated, err := io.ReadAll(flate.NewReader(bytes.NewReader(comp))); err == nil {
					if doc != nil {
						o.RequestOK = bytes.Equal(inflated, doc)
					} else {
						// the builder made the request itself: it must be an AuthnRequest for this SP, signed iff configured
						d := etree.NewDocument()
						o.RequestOK = d.ReadFromBytes(inflated) == nil && d.Root() != nil && d.Root().Tag == "AuthnRequest" &&
							d.Root().SelectAttrValue("Destination", "") == sp.IdentityProviderSSOURL &&
							d.Root().SelectAttrValue("AssertionConsumerServiceURL", "") == sp.AssertionConsumerServiceURL &&
							d.Root().FindElement("./Issuer") != nil && d.Root().FindElement("./Issuer").Text() == sp.ServiceProviderIssuer &&
							(d.Root().FindElement("./Signature") != nil) == in.SignReq
					}
				}
			}
		}
	}
	v2, rp := one("RelayState")
	o.RelayPresent = rp || len(vals["RelayState"]) > 0
	if rp {
		dv, err := url.QueryUnescape(v2)
		o.RelayOK = err == nil && dv == relay
	}
	v4, sp4 := one("Signature")
	v3, sp3 := one("SigAlg")
	o.SigPresent = sp4 || sp3 || len(vals["Signature"]) > 0 || len(vals["SigAlg"]) > 0
	if sp4 && sp3 {
		algURI, _ := url.QueryUnescape(v3)
		o.Sigalg = sigTok[algURI]
		if o.Sigalg == "" {
			o.Sigalg = "unknown:" + algURI
		}
		v1, _ := one("SAMLRequest")
		signed := "SAMLRequest=" + v1
		if rp {
			signed += "&RelayState=" + v2
		}
		signed += "&SigAlg=" + v3
		sv, _ := url.QueryUnescape(v4)
		raw, err := base64.StdEncoding.DecodeString(sv)
		o.VerifiedBy = "none"
		if err == nil {
			for n, k := range outboundKeys() {
				if idp.VerifyBytes(k.Key.Public(), algURI, []byte(signed), raw) == nil {
					o.VerifiedBy = strings.TrimSuffix(n, "EC")
					o.SigOK = true
				}
			}
		}
	}
}

func htmlSkeleton(h *pyproj.HTML) string {
	var sb strings.Builder
	for _, t := range h.Tags {
		var names []string
		for _, a := range t.Attrs {
			names = append(names, a[0])
		}
		sort.Strings(names)
		sb.WriteString(t.Name + "[" + strings.Join(names, ",") + "]")
	}
	sb.WriteString(fmt.Sprintf("|scripts=%d|text=%d", len(h.Scripts), len(h.Text)))
	return sb.String()
}

func analysePost(in *bInput, sp *saml2.SAMLServiceProvider, body []byte, relay string, doc []byte, twin []byte, o *bObs) {
	h, err := pyproj.ParseHTML(body)
	if err != nil {
		orch.Fatal("html worker: %v", err)
	}
	if !h.UTF8OK {
		o.Note += " page is not valid UTF-8"
		return // every check stays false
	}
	field := "SAMLRequest"
	endpoint := sp.IdentityProviderSSOURL
	if in.Flow == "logoutResp" {
		field = "SAMLResponse"
	}
	if in.Flow == "logoutReq" || in.Flow == "logoutResp" {
		endpoint = sp.IdentityProviderSLOURL
	}
	attr := func(t pyproj.Tag, n string) (string, bool) {
		for _, a := range t.Attrs {
			if a[0] == n {
				return a[1], true
			}
		}
		return "", false
	}
	inForm := false
	relayCount := 0
	for _, t := range h.Tags {
		switch t.Name {
		case "form":
			o.Forms++
			inForm = true
			a, _ := attr(t, "action")
			m, _ := attr(t, "method")
			o.ActionOK = a == endpoint && strings.EqualFold(m, "post")
		case "/form":
			inForm = false
		case "input":
			n, _ := attr(t, "name")
			v, _ := attr(t, "value")
			if n == field || n == "SAMLRequest" || n == "SAMLResponse" {
				o.FieldCount++
				dec, err := base64.StdEncoding.DecodeString(v)
				if n == field && inForm && err == nil {
					if doc != nil {
						o.FieldOK = bytes.Equal(dec, doc)
					} else {
						// BuildAuthBodyPost builds the document itself: it must be an AuthnRequest for this SP
						d := etree.NewDocument()
						o.FieldOK = d.ReadFromBytes(dec) == nil && d.Root() != nil && d.Root().Tag == "AuthnRequest" &&
							d.Root().SelectAttrValue("Destination", "") == sp.IdentityProviderSSOURL &&
							d.Root().SelectAttrValue("AssertionConsumerServiceURL", "") == sp.AssertionConsumerServiceURL &&
							d.Root().FindElement("./Issuer") != nil && d.Root().FindElement("./Issuer").Text() == sp.ServiceProviderIssuer &&
							(d.Root().FindElement("./Signature") != nil) == in.SignReq
					}
				}
			}
			if n == "RelayState" {
				relayCount++
				o.RelayPresent = true
				o.RelayOK = inForm && v == relay
			}
		}
	}
	if relayCount > 1 {
		o.RelayOK = false
	}
	for _, s := range h.Scripts {
		if strings.Contains(s, "submit(") {
			o.ScriptSubmits = true
		}
	}
	if twin != nil {
		if h2, err := pyproj.ParseHTML(twin); err == nil {
			o.SkeletonOK = htmlSkeleton(h) == htmlSkeleton(h2)
		}
	}
}

// callerDocument turns a library-built document into one a caller might hand in: its own prolog,
// comments outside the root element, default write settings and an attribute whose value needs care.
func callerDocument(doc *etree.Document, big bool) {
	doc.WriteSettings = etree.WriteSettings{}
	doc.Root().CreateAttr("Destination", "https://elsewhere.example/inbox?x=1&y=2")
	if big {
		doc.Root().CreateAttr("app:padding", strings.Repeat("0123456789abcdef", 300))
		doc.AddChild(etree.NewComment(strings.Repeat(" lorem ipsum ", 400)))
	}
	doc.Root().CreateAttr("xmlns:app", "urn:example:app")
	doc.Root().CreateAttr("app:note", "tab\there cr\rlf\nend")
	doc.InsertChildAt(0, etree.NewProcInst("xml", `version="1.0" encoding="UTF-8"`))
	doc.InsertChildAt(1, etree.NewComment(" prepared by the application "))
	doc.AddChild(etree.NewComment(" trailer "))
}

func (o *bObs) suspicious(in *bInput) bool {
	if in.Binding == "redirect" {
		return !(o.Built && o.EndpointOK && o.ParamsOK && o.RequestOK && (!o.RelayPresent || o.RelayOK))
	}
	return !(o.Built && o.Forms == 1 && o.ActionOK && o.FieldCount == 1 && o.FieldOK && (!o.RelayPresent || o.RelayOK) && o.ScriptSubmits && o.SkeletonOK && o.RepeatOK)
}

func (Bindings) Run(c *orch.Case) *orch.Outcome {
	var in bInput
	if json.Unmarshal(c.Input, &in) != nil {
		orch.Fatal("bindings: bad case")
	}
	rng := rand.New(rand.NewSource(c.Seed))
	if in.Relay != "srcdict" {
		o, replay := bindingsOne(&in, relayFor(in.Relay, rng))
		return &orch.Outcome{Obs: o, Labels: []string{"relay=" + in.Relay}, Replay: replay}
	}
	// relay states equal to (or wrapped around) the string literals of the library's own source
	lits := SourceLiterals()
	if len(lits) == 0 {
		orch.Fatal("bindings: no source literals found under the tree being checked")
	}
	pick := lits
	if !(in.Idpurl == "noquery" && in.Doc == "built" && in.Alg == "unset" && in.Keycfg == "encField") {
		pick = []string{lits[rng.Intn(len(lits))], lits[rng.Intn(len(lits))]}
	}
	var o *bObs
	var replay map[string]any
	for _, l := range pick {
		rs := l
		if rng.Intn(3) == 0 {
			rs = "x " + l + " y"
		}
		o, replay = bindingsOne(&in, rs)
		if o.suspicious(&in) {
			break
		}
	}
	return &orch.Outcome{Obs: o, Labels: []string{"relay=" + in.Relay}, Replay: replay}
}

func bindingsOne(inp *bInput, relay string) (*bObs, map[string]any) {
	in := *inp
	sp, _ := bindingsSP(&in)
	o := &bObs{}
	signedDoc := len(relay)%2 == 1
	replay := map[string]any{"relay_state": relay}
	func() {
		defer func() {
			if r := recover(); r != nil {
				o.Note = fmt.Sprint("panic: ", r)
				o.Built = false
			}
		}()
		var doc *etree.Document
		var err error
		switch in.Flow {
		case "authn", "authnPostBinding":
			if in.Binding == "redirect" {
				// the caller may hand the Redirect builders a document that already carries an enveloped signature
				if signedDoc && in.SignReq {
					doc, err = sp.BuildAuthRequestDocument()
				} else {
					doc, err = sp.BuildAuthRequestDocumentNoSig()
				}
			}
		case "authURL", "authRedirect":
			// the library builds the request itself
		case "authnFromDoc":
			doc, err = sp.BuildAuthRequestDocument()
		case "logoutReq":
			if in.Binding == "redirect" && signedDoc {
				doc, err = sp.BuildLogoutRequestDocument("alice@example.com", "sess-1")
			} else if in.Binding == "redirect" {
				doc, err = sp.BuildLogoutRequestDocumentNoSig("alice@example.com", "sess-1")
			} else {
				doc, err = sp.BuildLogoutRequestDocument("alice@example.com", "sess-1")
			}
		case "logoutResp":
			doc, err = sp.BuildLogoutResponseDocument(saml2.StatusCodeSuccess, "_req-9")
		}
		if err != nil {
			o.Note = "build doc: " + err.Error()
			return
		}
		var docBytes []byte
		if doc != nil && (in.Doc == "caller" || in.Doc == "callerBig") {
			callerDocument(doc, in.Doc == "callerBig")
		}
		if doc != nil {
			s, _ := doc.WriteToString()
			docBytes = []byte(s)
		}
		if in.Binding == "redirect" {
			var u string
			switch in.Flow {
			case "authn":
				u, err = sp.BuildAuthURLRedirect(relay, doc)
			case "authnPostBinding":
				u, err = sp.BuildAuthURLFromDocument(relay, doc)
			case "authURL":
				u, err = sp.BuildAuthURL(relay)
			case "authRedirect":
				rec := httptest.NewRecorder()
				req := httptest.NewRequest("GET", "https://sp.example.com/login", nil)
				err = sp.AuthRedirect(rec, req, relay)
				if err == nil {
					if rec.Code != http.StatusFound {
						err = fmt.Errorf("status %d", rec.Code)
					}
					u = rec.Header().Get("Location")
				}
			case "logoutReq":
				u, err = sp.BuildLogoutURLRedirect(relay, doc)
			}
			if err != nil {
				o.Note = "build url: " + err.Error()
				return
			}
			o.Built = true
			replay["url"] = u
			analyseRedirect(&in, sp, u, relay, docBytes, o)
			return
		}
		post := func(rs string) ([]byte, error) {
			switch in.Flow {
			case "authn":
				return sp.BuildAuthBodyPost(rs)
			case "authnFromDoc":
				return sp.BuildAuthBodyPostFromDocument(rs, doc)
			case "logoutReq":
				return sp.BuildLogoutBodyPostFromDocument(rs, doc)
			}
			return sp.BuildLogoutResponseBodyPostFromDocument(rs, doc)
		}
		body, err := post(relay)
		if err != nil {
			o.Note = "build body: " + err.Error()
			return
		}
		o.Built = true
		replay["body"] = string(body)
		benign := ""
		if relay != "" {
			benign = "benign-state"
		}
		twin, _ := post(benign)
		analysePost(&in, sp, body, relay, docBytes, twin, o)
		// the identical call on the same document gives the identical page, and the document is what it was
		// (BuildAuthBodyPost builds a fresh request, with a fresh ID, on every call: nothing to compare there)
		o.RepeatOK = true
		if doc != nil {
			again, err2 := post(relay)
			o.RepeatOK = err2 == nil && bytes.Equal(again, body)
			if after, _ := doc.WriteToString(); after != string(docBytes) {
				o.RepeatOK = false
			}
		}
	}()
	return o, replay
}

func (Bindings) Corrupt(c *orch.Case, o *orch.Outcome) (any, string, bool) {
	ob := o.Obs.(*bObs)
	var in bInput
	json.Unmarshal(c.Input, &in)
	if in.Binding != "redirect" || !ob.RequestOK {
		return nil, "", false
	}
	cp := *ob
	cp.RequestOK = false
	return &cp, "C14", true
}
