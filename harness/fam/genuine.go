package fam

import (
	"crypto/x509"
	"encoding/json"
	"fmt"
	"math/rand"
	"strings"
	"time"

	"github.com/beevik/etree"
	saml2 "github.com/russellhaering/gosaml2"
	"github.com/russellhaering/gosaml2/types"
	dsig "github.com/russellhaering/goxmldsig"

	"verifharness/idp"
	"verifharness/orch"
	"verifharness/world"
)

// Genuine concretises spec/Genuine.tla: what a conforming IdP issues, in every layout.
type Genuine struct{}

type gInput struct {
	Variant string `json:"variant,omitempty"` // "" | "attr-cdend" | "fixture:<name>" | "fixture-deflate:<name>"
	Place   string `json:"place"`
	N       int    `json:"n"`
	Enc     bool   `json:"enc"`
	C14n    string `json:"c14n"`
	Dig     string `json:"dig"`
	Sigalg  string `json:"sigalg"`
	Keyinfo bool   `json:"keyinfo"`
	Deflate bool   `json:"deflate"`
}
type gCfg struct {
	Store string `json:"store"`
}
type gObs struct {
	Res       string `json:"res"`
	RFlag     bool   `json:"rflag"`
	N         int    `json:"n"`
	Exact     bool   `json:"exact"`
	Accessors bool   `json:"accessors"`
	Pre       preObs `json:"pre"`
	Err       string `json:"err"`
	Diff      string `json:"diff"`
}

func (Genuine) Name() string { return "Genuine" }
func (Genuine) MC(tier string) (string, string) {
	return "MC_Genuine.tla", "MC_Genuine_" + tier + ".cfg"
}
func (Genuine) Trace() (string, string) { return "Trace_Genuine.tla", "Trace_Genuine.cfg" }
func (Genuine) Cap(tier string) int {
	if tier == "quick" {
		return 3000
	}
	return 0
}
func (Genuine) Layouts(tier string) int {
	if tier == "thorough" {
		return 2
	}
	return 1
}

var c14nURI = map[string]string{"exc": idp.C14NExc, "exccom": idp.C14NExcCom, "c14n11": idp.C14N11, "c14n11com": idp.C14N11Com, "c14n10": idp.C14N10, "c14n10com": idp.C14N10Com}
var digAlgURI = map[string]string{"sha1": idp.DigSHA1, "sha256": idp.DigSHA256, "sha384": idp.DigSHA384, "sha512": idp.DigSHA512}
var sigURI = map[string]string{"rsa-sha1": idp.SigRSASHA1, "rsa-sha256": idp.SigRSASHA256, "rsa-sha384": idp.SigRSASHA384, "rsa-sha512": idp.SigRSASHA512,
	"ecdsa-sha1": idp.SigECDSASHA1, "ecdsa-sha256": idp.SigECDSASHA256, "ecdsa-sha384": idp.SigECDSASHA384, "ecdsa-sha512": idp.SigECDSASHA512}

// genAssertion draws an assertion the IdP might issue for this SP.
func genAssertion(rng *rand.Rand, i int) *idp.Assertion {
	a := world.Content("GA1")
	a.ID = fmt.Sprintf("_%c%s", 'a'+rune(i), GenXMLString(rng, 0, 20))
	a.Subject.NameID = idp.S(GenAnyXMLString(rng, 40))
	nattr := rng.Intn(5)
	var attrs []idp.Attribute
	for k := 0; k < nattr; k++ {
		at := idp.Attribute{Name: fmt.Sprintf("%s#%d", GenAttrXMLString(rng, 12), k), XsiType: rng.Intn(2) == 0}
		if rng.Intn(2) == 0 {
			at.FriendlyName = idp.S(GenAttrXMLString(rng, 12))
		}
		if rng.Intn(2) == 0 {
			at.NameFormat = idp.S("urn:oasis:names:tc:SAML:2.0:attrname-format:" + GenXMLString(rng, 0, 8))
		}
		for v := rng.Intn(4); v > 0; v-- {
			if rng.Intn(8) == 0 {
				at.Values = append(at.Values, "")
			} else {
				at.Values = append(at.Values, GenAnyXMLString(rng, 30))
			}
		}
		attrs = append(attrs, at)
	}
	if i == 0 && rng.Intn(25) == 0 {
		// a large multiset: the whole document stays below the validator's budget of 1000 elements per traversal
		big := idp.Attribute{Name: "groups#big"}
		for v := 450 + rng.Intn(350); v > 0; v-- {
			big.Values = append(big.Values, fmt.Sprintf("g%d", v))
		}
		attrs = append(attrs, big)
	}
	a.Attrs = &attrs
	if rng.Intn(6) == 0 {
		a.Authn = nil
	} else {
		a.Authn.SessionIndex = idp.S(GenAttrXMLString(rng, 20))
		a.Authn.AuthnInstant = idp.S(RenderInstant(world.Now.Add(-time.Duration(rng.Intn(1000))*time.Millisecond), rng))
		if rng.Intn(2) == 0 {
			a.Authn.SessionNotOnOrAfter = idp.S(RenderInstant(world.Now.Add(time.Hour+time.Duration(rng.Intn(4))*500*time.Millisecond), rng))
		}
	}
	return a
}

func tsEq(p *time.Time, s *string) bool {
	if s == nil {
		return p == nil
	}
	if p == nil {
		return false
	}
	t, err := time.Parse(time.RFC3339Nano, *s)
	return err == nil && t.Equal(*p)
}

// compareAssertion checks a decoded assertion field-for-field against the simulator's model.
func compareAssertion(got *types.Assertion, want *idp.Assertion) string {
	if got.ID != want.ID {
		return fmt.Sprintf("ID %q != %q", got.ID, want.ID)
	}
	if got.Subject == nil || got.Subject.NameID == nil || got.Subject.NameID.Value != *want.Subject.NameID {
		return fmt.Sprintf("NameID %+v != %q", got.Subject, *want.Subject.NameID)
	}
	if want.Attrs != nil {
		if got.AttributeStatement == nil || len(got.AttributeStatement.Attributes) != len(*want.Attrs) {
			return "attribute count"
		}
		for i, wa := range *want.Attrs {
			ga := got.AttributeStatement.Attributes[i]
			if ga.Name != wa.Name {
				return fmt.Sprintf("attr name %q != %q", ga.Name, wa.Name)
			}
			if wa.FriendlyName != nil && ga.FriendlyName != *wa.FriendlyName || wa.FriendlyName == nil && ga.FriendlyName != "" {
				return fmt.Sprintf("FriendlyName %q", ga.FriendlyName)
			}
			if wa.NameFormat != nil && ga.NameFormat != *wa.NameFormat || wa.NameFormat == nil && ga.NameFormat != "" {
				return fmt.Sprintf("NameFormat %q", ga.NameFormat)
			}
			if len(ga.Values) != len(wa.Values) {
				return fmt.Sprintf("attr %q value count %d != %d", wa.Name, len(ga.Values), len(wa.Values))
			}
			for j := range wa.Values {
				if ga.Values[j].Value != wa.Values[j] {
					return fmt.Sprintf("attr %q value %q != %q", wa.Name, ga.Values[j].Value, wa.Values[j])
				}
			}
		}
	}
	if want.Authn != nil {
		if got.AuthnStatement == nil {
			return "AuthnStatement missing"
		}
		if got.AuthnStatement.SessionIndex != *want.Authn.SessionIndex {
			return fmt.Sprintf("SessionIndex %q != %q", got.AuthnStatement.SessionIndex, *want.Authn.SessionIndex)
		}
		if !tsEq(got.AuthnStatement.AuthnInstant, want.Authn.AuthnInstant) {
			return "AuthnInstant"
		}
		if !tsEq(got.AuthnStatement.SessionNotOnOrAfter, want.Authn.SessionNotOnOrAfter) {
			return "SessionNotOnOrAfter"
		}
	} else if got.AuthnStatement != nil {
		return "unexpected AuthnStatement"
	}
	return ""
}

func accessorLaws(info *saml2.AssertionInfo, want *idp.Assertion) string {
	vals := info.Values
	seen := map[string]bool{}
	if want.Attrs != nil {
		// the map view keeps the last attribute of a name; names are distinct here
		for _, wa := range *want.Attrs {
			seen[wa.Name] = true
			first := ""
			if len(wa.Values) > 0 {
				first = wa.Values[0]
			}
			if vals.Get(wa.Name) != first {
				return fmt.Sprintf("Get(%q)=%q want %q", wa.Name, vals.Get(wa.Name), first)
			}
			if vals.GetSize(wa.Name) != len(wa.Values) {
				return fmt.Sprintf("GetSize(%q)", wa.Name)
			}
			all := vals.GetAll(wa.Name)
			if len(all) != len(wa.Values) {
				return fmt.Sprintf("GetAll(%q) len", wa.Name)
			}
			for i := range all {
				if all[i] != wa.Values[i] {
					return fmt.Sprintf("GetAll(%q)[%d]", wa.Name, i)
				}
			}
		}
	}
	// absent names: an unrelated one, and near misses of every present one (case variants, padding, a prefix, Unicode
	// look-alikes): a name is an exact key
	absents := []string{"no-such-attribute", ""}
	for n := range seen {
		absents = append(absents, strings.ToUpper(n), strings.ToLower(n), strings.Title(n), " "+n, n+" ", n+"\x00", n[:len(n)/2], strings.Replace(n, "s", "\u017f", 1), strings.Replace(n, "i", "\u0131", 1))
	}
	for _, absent := range absents {
		if seen[absent] {
			continue
		}
		if vals.Get(absent) != "" || vals.GetSize(absent) != 0 || len(vals.GetAll(absent)) != 0 {
			return fmt.Sprintf("absent name %q gives a value", absent)
		}
	}
	var nilv saml2.Values
	if nilv.Get("x") != "" || nilv.GetSize("x") != 0 || len(nilv.GetAll("x")) != 0 {
		return "nil map"
	}
	return ""
}

func (Genuine) Run(c *orch.Case) *orch.Outcome {
	var cfg gCfg
	var in gInput
	if json.Unmarshal(c.Cfg, &cfg) != nil || json.Unmarshal(c.Input, &in) != nil {
		orch.Fatal("genuine: bad case")
	}
	if strings.HasPrefix(in.Variant, "fixture") {
		out := runFixture(&in)
		// the structural fields of a capture are observed, not prescribed: echo them into the input
		fo := out.Obs.(*gObs)
		in.Place = map[bool]string{true: "root", false: "assert"}[fo.RFlag]
		if fo.N > 0 {
			in.N = fo.N
		}
		c.Input, _ = json.Marshal(in)
		return out
	}
	w := world.Get()
	rng := rand.New(rand.NewSource(c.Seed))
	lay := layoutFor(rng, false)
	incl := in.C14n != "exc" && in.C14n != "exccom"
	b := idp.NewBuilder(lay, c.Seed+1)

	signer := w.IdpA
	if len(in.Sigalg) > 5 && in.Sigalg[:5] == "ecdsa" {
		signer = w.IdpEC
	}
	so := idp.SigOpts{C14N: c14nURI[in.C14n], Digest: digAlgURI[in.Dig], SigAlg: sigURI[in.Sigalg], Key: signer.Key, At: -1}
	if in.Keyinfo {
		so.ShowCerts = [][]byte{signer.DER}
		if rng.Intn(4) == 0 {
			so.ShowCerts = append(so.ShowCerts, w.IdpB.DER) // a chain: only the first is the signer
		}
	}
	if !incl && lay.XsiType && rng.Intn(2) == 0 {
		so.PrefixList = "xs"
	}

	rs := genuineRoot()
	if in.Variant == "attr-cdend" {
		defer func() { recover() }()
	}
	rs.ID = "_r" + GenXMLString(rng, 0, 24)
	rs.InResponseTo = idp.S("_q" + GenXMLString(rng, 0, 24))
	root := b.ResponseEl(rs)
	var specs []*idp.Assertion
	var plainEls []*etree.Element
	for i := 0; i < in.N; i++ {
		spec := genAssertion(rng, i)
		if in.Variant == "attr-cdend" {
			*spec.Attrs = append(*spec.Attrs, idp.Attribute{Name: "odd]]>name", Values: []string{"v"}})
		}
		specs = append(specs, spec)
		el := b.AssertionEl(spec, in.Enc)
		if !in.Enc {
			root.AddChild(el)
		}
		plainEls = append(plainEls, el)
	}
	if !in.Enc {
		b.Decorate(root)
		if in.Place != "root" {
			for _, el := range plainEls {
				mustSign(el, so)
			}
		}
	} else {
		for _, el := range plainEls {
			b.Decorate(el)
			if in.Place != "root" {
				mustSign(el, so)
			}
			plain := idp.Serialize(el, lay, rng)
			ee, err := b.EncryptedAssertion(plain, idp.EncOpts{DataAlg: idp.DataAlgs[rng.Intn(5)], KeyTransport: idp.KeyTransports[rng.Intn(3)],
				Pub: &idp.RSAKey("sp").PublicKey, Detached: rng.Intn(2) == 0, Recipient: pick(rng, w.SP.DER)})
			if err != nil {
				orch.Fatal("genuine: encrypt: %v", err)
			}
			root.AddChild(ee)
		}
		b.Decorate(root)
	}
	if in.Place != "assert" {
		mustSign(root, so)
	}
	doc := idp.Serialize(root, lay, rng)
	enc := idp.Encode(doc, in.Deflate)

	sp := w.NewSP()
	roots := []*x509.Certificate{signer.Cert}
	if cfg.Store == "two" {
		other := w.IdpB.Cert
		if rng.Intn(2) == 0 {
			roots = []*x509.Certificate{other, signer.Cert}
		} else {
			roots = append(roots, other)
		}
	}
	sp.IDPCertificateStore = &dsig.MemoryX509CertificateStore{Roots: roots}

	o := &gObs{}
	var resp *types.Response
	func() {
		defer func() {
			if r := recover(); r != nil {
				o.Res, o.Err = "panic", fmt.Sprint(r)
			}
		}()
		r, err := sp.ValidateEncodedResponse(enc)
		o.Res, o.Err = classify(r == nil, err)
		if o.Res != "accept" {
			return
		}
		resp = r
		o.RFlag, o.N = r.SignatureValidated, len(r.Assertions)
		o.Exact = true
		if r.ID != rs.ID || r.InResponseTo != *rs.InResponseTo {
			o.Exact, o.Diff = false, "response ID/InResponseTo"
		}
		if len(r.Assertions) == len(specs) {
			for i := range specs {
				if d := compareAssertion(&r.Assertions[i], specs[i]); d != "" {
					o.Exact, o.Diff = false, fmt.Sprintf("assertion %d: %s", i, d)
					break
				}
			}
		} else {
			o.Exact, o.Diff = false, "assertion count"
		}
		info, err := sp.RetrieveAssertionInfo(enc)
		if err != nil || info == nil {
			o.Exact, o.Diff = false, fmt.Sprintf("info: %v", err)
			return
		}
		f := specs[0]
		switch {
		case info.NameID != *f.Subject.NameID:
			o.Exact, o.Diff = false, "info.NameID"
		case f.Authn != nil && (info.SessionIndex != *f.Authn.SessionIndex || !tsEq(info.AuthnInstant, f.Authn.AuthnInstant) || !tsEq(info.SessionNotOnOrAfter, f.Authn.SessionNotOnOrAfter)):
			o.Exact, o.Diff = false, "info session fields"
		case len(info.Assertions) != len(specs):
			o.Exact, o.Diff = false, "info.Assertions"
		}
		if d := accessorLaws(info, f); d == "" {
			o.Accessors = true
		} else {
			o.Diff += " accessors: " + d
		}
	}()
	func() {
		defer func() { recover() }()
		pre, err := saml2.DecodeUnverifiedBaseResponse(enc)
		if err == nil && pre != nil {
			o.Pre.OK = true
			if resp != nil {
				iss := func(i *types.Issuer) string {
					if i == nil {
						return "<nil>"
					}
					return i.Value
				}
				o.Pre.Agree = pre.ID == resp.ID && pre.InResponseTo == resp.InResponseTo && pre.Destination == resp.Destination &&
					pre.Version == resp.Version && iss(pre.Issuer) == iss(resp.Issuer)
			}
		}
	}()
	labels := []string{}
	if o.Diff != "" {
		labels = append(labels, "diff")
	}
	// class label for the known finding: "]]>" inside an attribute-valued field
	cdEnd := strings.Contains(rs.ID, "]]>") || strings.Contains(*rs.InResponseTo, "]]>")
	for _, sp := range specs {
		if strings.Contains(sp.ID, "]]>") || (sp.Authn != nil && strings.Contains(*sp.Authn.SessionIndex, "]]>")) {
			cdEnd = true
		}
		for _, at := range *sp.Attrs {
			if strings.Contains(at.Name, "]]>") || (at.FriendlyName != nil && strings.Contains(*at.FriendlyName, "]]>")) || (at.NameFormat != nil && strings.Contains(*at.NameFormat, "]]>")) {
				cdEnd = true
			}
		}
	}
	if cdEnd && o.Res == "reject" && strings.Contains(o.Err, "unescaped ]]>") {
		labels = append(labels, "attr-value-contains-cdata-end", "rejected-as-xml-syntax-error")
	}
	return &orch.Outcome{Obs: o, Labels: labels, Replay: map[string]any{"encoded_response": enc, "document": string(doc), "sp": describeSP(sp), "layout": lay, "diff": o.Diff}}
}

// Extra adds one deterministic instance of the known "]]>"-in-attribute class and the
// real IdP captures (raw and DEFLATE-compressed).
func (Genuine) Extra(tier string, seed int64) []orch.Case {
	mk := func(variant string, place string, enc bool) orch.Case {
		in, _ := json.Marshal(gInput{Variant: variant, Place: place, N: 1, Enc: enc, C14n: "exc", Dig: "sha256", Sigalg: "rsa-sha256", Keyinfo: true, Deflate: strings.HasPrefix(variant, "fixture-deflate")})
		return orch.Case{Src: "extra", Cfg: json.RawMessage(`{"store":"one"}`), Input: in, Seed: seed}
	}
	cases := []orch.Case{mk("attr-cdend", "root", false)}
	for _, f := range LoadFixtures() {
		cases = append(cases, mk("fixture:"+f.Name, "root", f.Encrypted), mk("fixture-deflate:"+f.Name, "root", f.Encrypted))
	}
	return cases
}

func runFixture(in *gInput) *orch.Outcome {
	name := in.Variant[strings.Index(in.Variant, ":")+1:]
	var fx *Fixture
	for _, f := range LoadFixtures() {
		if f.Name == name {
			f := f
			fx = &f
		}
	}
	if fx == nil {
		orch.Fatal("unknown fixture %s", name)
	}
	raw := fx.Raw()
	enc := idp.Encode(raw, in.Deflate)
	sp := fx.SP()
	o := &gObs{}
	func() {
		defer func() {
			if r := recover(); r != nil {
				o.Res, o.Err = "panic", fmt.Sprint(r)
			}
		}()
		r, err := sp.ValidateEncodedResponse(enc)
		o.Res, o.Err = classify(r == nil, err)
		if o.Res != "accept" {
			return
		}
		o.RFlag, o.N = r.SignatureValidated, len(r.Assertions)
		in.N = o.N // captures carry one assertion each; the count is whatever was signed
		info, err := sp.RetrieveAssertionInfo(enc)
		if err != nil {
			o.Diff = "info: " + err.Error()
			return
		}
		o.Exact, o.Accessors = true, true
		if !fx.Encrypted {
			want, err := ScanFirstAssertion(raw)
			if err != nil {
				orch.Fatal("scan fixture: %v", err)
			}
			if info.NameID != want.NameID || info.SessionIndex != want.SessionIndex || r.ID != want.RespID || r.InResponseTo != want.InResponseTo {
				o.Exact, o.Diff = false, fmt.Sprintf("NameID/SessionIndex/ID: %q %q", info.NameID, want.NameID)
			}
			for name, vals := range want.Attrs {
				got := info.Values.GetAll(name)
				if len(got) != len(vals) || info.Values.GetSize(name) != len(vals) {
					o.Accessors, o.Diff = false, "attr "+name
					continue
				}
				for i := range vals {
					if got[i] != vals[i] {
						o.Accessors, o.Diff = false, "attr value "+name
					}
				}
			}
		}
		pre, err := saml2.DecodeUnverifiedBaseResponse(enc)
		if err == nil && pre != nil {
			o.Pre.OK = true
			iss := func(i *types.Issuer) string {
				if i == nil {
					return "<nil>"
				}
				return i.Value
			}
			o.Pre.Agree = pre.ID == r.ID && pre.InResponseTo == r.InResponseTo && pre.Destination == r.Destination && pre.Version == r.Version && iss(pre.Issuer) == iss(r.Issuer)
		}
	}()
	return &orch.Outcome{Obs: o, Replay: map[string]any{"fixture": fx.Name, "encoded_response": enc}}
}

func (Genuine) Corrupt(c *orch.Case, o *orch.Outcome) (any, string, bool) {
	ob := o.Obs.(*gObs)
	if ob.Res != "accept" || !ob.Exact {
		return nil, "", false
	}
	cp := *ob
	cp.Exact = false
	return &cp, "C08", true
}
