package fam

import (
	"crypto/rand"
	"crypto/tls"
	"encoding/base64"
	"encoding/json"
	"encoding/xml"
	"fmt"
	"math"
	mrand "math/rand"
	"strings"
	"sync"

	"github.com/beevik/etree"
	saml2 "github.com/russellhaering/gosaml2"
	"github.com/russellhaering/gosaml2/types"
	dsig "github.com/russellhaering/goxmldsig"

	"verifharness/idp"
	"verifharness/orch"
	"verifharness/world"
)

// Garbage realises the hostile-input classes of spec/Garbage.tla.
type Garbage struct{}

type zInput struct {
	Entry string `json:"entry"`
	Class string `json:"class"`
	Base  string `json:"base"`
	Pos   int    `json:"pos"`
	Of    int    `json:"of,omitempty"`   // denominator for pos (0 = the spec's Positions constant)
	Blob  string `json:"blob,omitempty"` // class "fuzz": the encoded input itself
}
type zCfg struct {
	SP string `json:"sp"`
}
type zObs struct {
	Res string `json:"res"`
	Err string `json:"err"`
}

func (Garbage) Name() string { return "Garbage" }
func (Garbage) MC(tier string) (string, string) {
	return "MC_Garbage.tla", "MC_Garbage_" + tier + ".cfg"
}
func (Garbage) Trace() (string, string) { return "Trace_Garbage.tla", "Trace_Garbage.cfg" }
func (Garbage) Cap(tier string) int     { return 0 }
func (Garbage) Layouts(tier string) int { return 1 }

var (
	gbOnce  sync.Once
	gbBases map[string][]byte
	gbEncEl []byte
)

func garbageBases() map[string][]byte {
	gbOnce.Do(func() {
		w := world.Get()
		b := idp.NewBuilder(idp.Layout{Prefix: 0, Pretty: true}, 11)
		gbBases = map[string][]byte{}
		root := b.ResponseEl(genuineRoot())
		root.AddChild(b.AssertionEl(world.Content("GA1"), false))
		b.Decorate(root)
		mustSign(root, idp.DefaultSig(w.IdpA.Key, w.IdpA.DER))
		gbBases["sso"] = idp.Plain(root)

		root2 := b.ResponseEl(genuineRoot())
		ae := ownSigned(b, w, world.Content("GA1"), true)
		ee, err := b.EncryptedAssertion(idp.Plain(ae), idp.EncOpts{DataAlg: idp.EncAES128CBC, KeyTransport: idp.KtOAEP, Pub: &idp.RSAKey("sp").PublicKey, Recipient: w.SP.DER})
		if err != nil {
			panic(err)
		}
		root2.AddChild(ee)
		gbBases["ssoenc"] = idp.Plain(root2)
		gbEncEl = idp.Plain(ee)

		lr := b.ResponseEl(logoutSpec("req", "_lr-1"))
		mustSign(lr, idp.DefaultSig(w.IdpA.Key, w.IdpA.DER))
		gbBases["logoutReq"] = idp.Plain(lr)
		lp := b.ResponseEl(logoutSpec("resp", "_lresp-1"))
		mustSign(lp, idp.DefaultSig(w.IdpA.Key, w.IdpA.DER))
		gbBases["logoutResp"] = idp.Plain(lp)
	})
	return gbBases
}

func rnd(n int) []byte { b := make([]byte, n); rand.Read(b); return b }

const respOpen = `<samlp:Response xmlns:samlp="urn:oasis:names:tc:SAML:2.0:protocol" xmlns:saml="urn:oasis:names:tc:SAML:2.0:assertion" ID="_x" Version="2.0">`

// freeDoc returns the octets (before base64) for a base-independent class; ok=false when
// the class is defined on the encoded string instead.
func freeInput(class string, rng *mrand.Rand, quick bool) string {
	b64 := base64.StdEncoding.EncodeToString
	scale := 1
	if !quick {
		scale = 4
	}
	switch class {
	case "empty":
		return ""
	case "bad_b64_chars":
		return "!!!@@@###$$$" + b64(rnd(20))
	case "bad_b64_padding":
		s := b64([]byte(respOpen + "</samlp:Response>"))
		return strings.TrimRight(s, "=") + "==="[:1+rng.Intn(3)] + "A"
	case "random_bytes":
		return b64(rnd(50 + rng.Intn(400)))
	case "deflate_of_garbage":
		return b64(idp.Deflate(rnd(300), 6))
	case "truncated_deflate":
		d := idp.Deflate(garbageBases()["sso"], 6)
		return b64(d[:len(d)/2])
	case "not_xml":
		return b64([]byte(`{"saml": "this is json", "n": 1}`))
	case "no_root":
		return b64([]byte(`<?xml version="1.0"?><!-- nothing here --> `))
	case "wrong_root":
		return b64([]byte(`<html xmlns="http://www.w3.org/1999/xhtml"><body><p>hi</p></body></html>`))
	case "doctype_entities":
		return b64([]byte(`<?xml version="1.0"?><!DOCTYPE lolz [<!ENTITY lol "lol"><!ENTITY lol2 "&lol;&lol;&lol;&lol;&lol;&lol;&lol;&lol;&lol;&lol;"><!ENTITY lol3 "&lol2;&lol2;&lol2;&lol2;&lol2;&lol2;&lol2;&lol2;">]>` + respOpen + `<saml:Issuer>&lol3;</saml:Issuer></samlp:Response>`))
	case "invalid_utf8":
		m := append([]byte{}, garbageBases()["sso"]...)
		i := strings.Index(string(m), "alice@")
		m[i], m[i+1] = 0xff, 0xfe
		return b64(m)
	case "undeclared_prefix":
		return b64([]byte(`<foo:Response ID="_x"><bar:Assertion/></foo:Response>`))
	case "colon_names":
		return b64([]byte(respOpen + `<a:b:c xmlns:a="urn:a"/><saml::Assertion/><:x/></samlp:Response>`))
	case "deep_nesting":
		n := 5000 * scale
		return b64([]byte(respOpen + strings.Repeat("<saml:Advice>", n) + strings.Repeat("</saml:Advice>", n) + "</samlp:Response>"))
	case "wide_tree":
		return b64([]byte(respOpen + strings.Repeat("<saml:Assertion/>", 20000*scale) + "</samlp:Response>"))
	case "many_attributes":
		var sb strings.Builder
		sb.WriteString(`<samlp:Response xmlns:samlp="urn:oasis:names:tc:SAML:2.0:protocol"`)
		for i := 0; i < 5000*scale; i++ {
			fmt.Fprintf(&sb, ` a%d="v"`, i)
		}
		sb.WriteString("/>")
		return b64([]byte(sb.String()))
	case "huge_text":
		return b64([]byte(respOpen + "<saml:Issuer>" + strings.Repeat("A", 500000*scale) + "</saml:Issuer></samlp:Response>"))
	case "xmlns_abuse":
		return b64([]byte(`<samlp:Response xmlns:samlp="urn:oasis:names:tc:SAML:2.0:protocol" xmlns:xmlns="urn:x" xmlns:xml="urn:wrong" xmlns="" ID="_x"><Assertion xmlns="urn:oasis:names:tc:SAML:2.0:assertion" xmlns:samlp="urn:other"><samlp:Response/></Assertion></samlp:Response>`))
	case "only_text":
		return b64([]byte("just some text, no markup at all"))
	}
	orch.Fatal("garbage: unknown free class %q", class)
	return ""
}

func positional(class string, m []byte, off int) string {
	b64 := base64.StdEncoding.EncodeToString
	clamp := func(n, max int) int {
		if n < 0 {
			return 0
		}
		if n > max {
			return max
		}
		return n
	}
	switch class {
	case "truncate":
		return b64(m[:clamp(off, len(m))])
	case "truncate_deflated":
		d := idp.Deflate(m, 6)
		return b64(d[:clamp(off*len(d)/(len(m)+1), len(d))])
	case "bitflip", "bitflip_deflated":
		src := m
		if class == "bitflip_deflated" {
			src = idp.Deflate(m, 6)
			off = off * len(src) / (len(m) + 1)
		}
		c := append([]byte{}, src...)
		if len(c) > 0 {
			i := clamp(off, len(c)-1)
			c[i] ^= 1 << uint(off%8)
		}
		return b64(c)
	case "delete_byte":
		i := clamp(off, len(m)-1)
		return b64(append(append([]byte{}, m[:i]...), m[i+1:]...))
	case "insert_lt":
		i := clamp(off, len(m))
		return b64(append(append(append([]byte{}, m[:i]...), '<'), m[i:]...))
	case "dup_region":
		i := clamp(off, len(m))
		j := clamp(off+50, len(m))
		return b64(append(append(append([]byte{}, m[:j]...), m[i:j]...), m[j:]...))
	}
	orch.Fatal("garbage: unknown positional class %q", class)
	return ""
}

func structural(class string) string {
	bases := garbageBases()
	base := "sso"
	if strings.HasPrefix(class, "enc_") {
		base = "ssoenc"
	}
	d := etree.NewDocument()
	if err := d.ReadFromBytes(bases[base]); err != nil {
		panic(err)
	}
	root := d.Root()
	find := func(path string) *etree.Element {
		e := root.FindElement(path)
		if e == nil {
			orch.Fatal("garbage: %s: no %s", class, path)
		}
		return e
	}
	switch class {
	case "sig_no_signedinfo":
		s := find("./Signature")
		s.RemoveChild(find("./Signature/SignedInfo"))
	case "sig_two_signedinfo":
		s := find("./Signature")
		s.AddChild(find("./Signature/SignedInfo").Copy())
	case "sig_no_value":
		find("./Signature").RemoveChild(find("./Signature/SignatureValue"))
	case "sig_empty_uri":
		find("./Signature/SignedInfo/Reference").CreateAttr("URI", "")
	case "sig_hash_uri":
		find("./Signature/SignedInfo/Reference").CreateAttr("URI", "#")
	case "sig_bad_digest_b64":
		find("./Signature/SignedInfo/Reference/DigestValue").SetText("@@@@")
	case "sig_unknown_c14n":
		find("./Signature/SignedInfo/CanonicalizationMethod").CreateAttr("Algorithm", "urn:nope")
	case "sig_unknown_sigalg":
		find("./Signature/SignedInfo/SignatureMethod").CreateAttr("Algorithm", "urn:nope")
	case "sig_unknown_digest":
		find("./Signature/SignedInfo/Reference/DigestMethod").CreateAttr("Algorithm", "urn:nope")
	case "sig_empty_keyinfo":
		k := find("./Signature/KeyInfo")
		k.Child = nil
	case "sig_garbage_cert":
		find("./Signature/KeyInfo/X509Data/X509Certificate").SetText(base64.StdEncoding.EncodeToString(rnd(300)))
	case "sig_no_reference":
		find("./Signature/SignedInfo").RemoveChild(find("./Signature/SignedInfo/Reference"))
	case "sig_no_transforms":
		find("./Signature/SignedInfo/Reference").RemoveChild(find("./Signature/SignedInfo/Reference/Transforms"))
	case "enc_no_cipherdata":
		find("./EncryptedAssertion/EncryptedData").RemoveChild(find("./EncryptedAssertion/EncryptedData/CipherData"))
	case "enc_no_method":
		find("./EncryptedAssertion/EncryptedData").RemoveChild(find("./EncryptedAssertion/EncryptedData/EncryptionMethod"))
	case "enc_empty_key":
		find("./EncryptedAssertion/EncryptedData/KeyInfo/EncryptedKey/CipherData/CipherValue").SetText("")
	case "enc_two_keys":
		ki := find("./EncryptedAssertion/EncryptedData/KeyInfo")
		ki.AddChild(find("./EncryptedAssertion/EncryptedData/KeyInfo/EncryptedKey").Copy())
	case "enc_nested_enc":
		ea := find("./EncryptedAssertion")
		find("./EncryptedAssertion/EncryptedData").AddChild(ea.Copy())
	default:
		orch.Fatal("garbage: unknown structural class %q", class)
	}
	return base64.StdEncoding.EncodeToString(idp.Plain(root))
}

func (Garbage) Run(c *orch.Case) *orch.Outcome {
	var cfg zCfg
	var in zInput
	if json.Unmarshal(c.Cfg, &cfg) != nil || json.Unmarshal(c.Input, &in) != nil {
		orch.Fatal("garbage: bad case")
	}
	rng := mrand.New(mrand.NewSource(c.Seed))
	quick := true
	if t := orchTier(); t == "thorough" {
		quick = false
	}
	isDec := in.Entry == "decryptBytes" || in.Entry == "decrypt"
	var enc string
	bases := garbageBases()
	switch {
	case in.Class == "fuzz":
		enc = in.Blob
	case strings.HasPrefix(in.Class, "sig_") || strings.HasPrefix(in.Class, "enc_"):
		enc = structural(in.Class)
	case in.Base != "" && in.Class != "" && isPositional(in.Class):
		m := bases[in.Base]
		if isDec {
			m = gbEncEl
		}
		off := in.Pos // absolute offset (sweeps)
		if in.Of != -1 {
			of := 6 // the tier's Positions constant
			if !quick {
				of = 24
			}
			off = in.Pos * len(m) / of
		}
		enc = positional(in.Class, m, off)
	default:
		enc = freeInput(in.Class, rng, quick)
	}

	var sp *saml2.SAMLServiceProvider
	var cert *tls.Certificate
	if cfg.SP == "bare" {
		sp = &saml2.SAMLServiceProvider{IDPCertificateStore: &dsig.MemoryX509CertificateStore{}}
		cert = &tls.Certificate{}
	} else {
		sp = world.Get().NewSP()
		switch cfg.SP {
		case "maxlimit":
			sp.MaximumDecompressedBodySize = math.MaxInt64
		case "neglimit":
			sp.MaximumDecompressedBodySize = -2
		}
		w := world.Get()
		cert = &tls.Certificate{Certificate: [][]byte{w.SP.DER}, PrivateKey: w.SP.Key}
	}
	o := &zObs{}
	trivial := false
	if isDec {
		raw, err := base64.StdEncoding.DecodeString(enc)
		var ea types.EncryptedAssertion
		if err != nil || xml.Unmarshal(raw, &ea) != nil {
			// the routine is not reachable with octets that do not decode into its receiver
			o.Res, trivial = "reject", true
		} else {
			func() {
				defer func() {
					if r := recover(); r != nil {
						o.Res, o.Err = "panic", fmt.Sprint(r)
					}
				}()
				if in.Entry == "decryptBytes" {
					b, err := ea.DecryptBytes(cert)
					// C09 convention for []byte results: "result" means err == nil
					if err != nil && b != nil {
						o.Res = "both"
					} else if err != nil {
						o.Res, o.Err = "reject", err.Error()
					} else {
						o.Res = "accept"
					}
				} else {
					a, err := ea.Decrypt(cert)
					o.Res, o.Err = classify(a == nil, err)
				}
			}()
		}
	} else {
		res, _, errc := callEntry(sp, in.Entry, enc)
		o.Res, o.Err = res, errc
	}
	if len(o.Err) > 160 {
		o.Err = o.Err[:160]
	}
	rep := map[string]any{"entry": in.Entry, "sp": cfg.SP}
	if len(enc) < 20000 {
		rep["encoded_input"] = enc
	} else {
		rep["encoded_input_prefix"] = enc[:2000]
		rep["encoded_input_len"] = len(enc)
	}
	return &orch.Outcome{Obs: o, Trivial: trivial, Replay: rep}
}

func isPositional(c string) bool {
	switch c {
	case "truncate", "truncate_deflated", "bitflip", "bitflip_deflated", "delete_byte", "insert_lt", "dup_region":
		return true
	}
	return false
}

// Extra sweeps truncation and bit flips over (nearly) every offset of every genuine base message.
func (Garbage) Extra(tier string, seed int64) []orch.Case {
	var out []orch.Case
	step := 11
	if tier == "thorough" {
		step = 1
	}
	entryFor := map[string][]string{"sso": {"validate", "predecodeResp"}, "ssoenc": {"info"}, "logoutReq": {"logoutReq"}, "logoutResp": {"logoutResp", "predecodeLogout"}}
	for base, m := range garbageBases() {
		for _, entry := range entryFor[base] {
			for off := int(seed) % step; off <= len(m); off += step {
				for _, class := range []string{"truncate", "bitflip"} {
					in, _ := json.Marshal(zInput{Entry: entry, Class: class, Base: base, Pos: off, Of: -1})
					out = append(out, orch.Case{Src: "sweep", Cfg: json.RawMessage(`{"sp":"normal"}`), Input: in, Seed: seed})
				}
			}
		}
	}
	for off := 0; off <= len(gbEncEl); off += step {
		in, _ := json.Marshal(zInput{Entry: "decryptBytes", Class: "bitflip", Base: "ssoenc", Pos: off, Of: -1})
		out = append(out, orch.Case{Src: "sweep", Cfg: json.RawMessage(`{"sp":"normal"}`), Input: in, Seed: seed})
	}
	return append(out, fuzzCases(tier, seed)...)
}

func (Garbage) Corrupt(c *orch.Case, o *orch.Outcome) (any, string, bool) {
	return &zObs{Res: "panic"}, "C09", true
}
