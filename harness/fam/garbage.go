package fam

import (
	"crypto/rand"
	"crypto/tls"
	"encoding/base64"
	"encoding/json"
	"encoding/xml"
	"fmt"
	"math"
	mrand "math/rand"
	"strings"
	"sync"

	"github.com/beevik/etree"
	saml2 "github.com/russellhaering/gosaml2"
	"github.com/russellhaering/gosaml2/types"
	dsig "github.com/russellhaering/goxmldsig"

	"verifharness/idp"
	"verifharness/orch"
	"verifharness/world"
)

// Garbage realises the hostile-input classes of spec/Garbage.tla.
type Garbage struct{}

type zInput struct {
	Entry string `json:"entry"`
	Class string `json:"class"`
	Base  string `json:"base"`
	Pos   int    `json:"pos"`
	Of    int    `json:"of,omitempty"`   // denominator for pos (0 = the spec's Positions constant)
	Blob  string `json:"blob,omitempty"` // class "fuzz": the encoded input itself
}
type zCfg struct {
	SP string `json:"sp"`
}
type zObs struct {
	Res string `json:"res"`
	Err string `json:"err"`
}

func (Garbage) Name() string { return "Garbage" }
func (Garbage) MC(tier string) (string, string) {
	return "MC_Garbage.tla", "MC_Garbage_" + tier + ".cfg"
}
func (Garbage) Trace() (string, string) { return "Trace_Garbage.tla", "Trace_Garbage.cfg" }
func (Garbage) Cap(tier string) int     { return 0 }
func (Garbage) Layouts(tier string) int { return 1 }

var (
	gbOnce  sync.Once
	gbBases map[string][]byte
	gbEncEl []byte
)

func garbageBases() map[string][]byte {
	gbOnce.Do(func() {
		w := world.Get()
		b := idp.NewBuilder(idp.Layout{Prefix: 0, Pretty: true}, 11)
		gbBases = map[string][]byte{}
		root := b.ResponseEl(genuineRoot())
		root.AddChild(b.AssertionEl(world.Content("GA1"), false))
		b.Decorate(root)
		mustSign(root, idp.DefaultSig(w.IdpA.Key, w.IdpA.DER))
		gbBases["sso"] = idp.Plain(root)

		root2 := b.ResponseEl(genuineRoot())
		ae := ownSigned(b, w, world.Content("GA1"), true)
		ee, err := b.EncryptedAssertion(idp.Plain(ae), idp.EncOpts{DataAlg: idp.EncAES128CBC, KeyTransport: idp.KtOAEP, Pub: &idp.RSAKey("sp").PublicKey, Recipient: w.SP.DER})
		if err != nil {
			panic(err)
		}
		root2.AddChild(ee)
		gbBases["ssoenc"] = idp.Plain(root2)
		gbEncEl = idp.Plain(ee)

		lr := b.ResponseEl(logoutSpec("req", "_lr-1"))
		mustSign(lr, idp.DefaultSig(w.IdpA.Key, w.IdpA.DER))
		gbBases["logoutReq"] = idp.Plain(lr)
		lp := b.ResponseEl(logoutSpec("resp", "_lresp-1"))
		mustSign(lp, idp.DefaultSig(w.IdpA.Key, w.IdpA.DER))
		gbBases["logoutResp"] = idp.Plain(lp)
	})
	return gbBases
}

func rnd(n int) []byte { b := make([]byte, n); rand.Read(b); return b }

const respOpen = `<samlp:Response xmlns:samlp="urn:oasis:names:tc:SAML:2.0:protocol" xmlns:saml="urn:oasis:names:tc:SAML:2.0:assertion" ID="_x" Version="2.0">`

// freeDoc returns the octets (before base64) for a base-independent class; ok=false when
// the class is defined on the encoded string instead.
func freeInput(class string, rng *mrand.Rand, quick bool) string {
	b64 := base64.StdEncoding.EncodeToString
	scale := 1
	if !quick {
		scale = 4
	}
	switch class {
	case "empty":
		return ""
	case "bad_b64_chars":
		return "!!!@@@###$$$" + b64(rnd(20))
	case "bad_b64_padding":
		s := b64([]byte(respOpen + "</samlp:Response>"))
		return strings.TrimRight(s, "=") + "==="[:1+rng.Intn(3)] + "A"
	case "random_bytes":
		return b64(rnd(50 + rng.Intn(400)))
	case "deflate_of_garbage":
		return b64(idp.Deflate(rnd(300), 6))
	case "truncated_deflate":
		d := idp.Deflate(garbageBases()["sso"], 6)
		return b64(d[:len(d)/2])
	case "not_xml":
		return b64([]byte(`{"saml": "this is json", "n": 1}`))
	case "no_root":
		return b64([]byte(`<?xml version="1.0"?><!-- nothing here --> `))
	case "wrong_root":
		return b64([]byte(`<html xmlns="http://www.w3.org/1999/xhtml"><body><p>hi</p></body></html>`))
	case "doctype_entities":
		return b64([]byte(`<?xml version="1.0"?><!DOCTYPE lolz [<!ENTITY lol "lol"><!ENTITY lol2 "&lol;&lol;&lol;&lol;&lol;&lol;&lol;&lol;&lol;&lol;"><!ENTITY lol3 "&lol2;&lol2;&lol2;&lol2;&lol2;&lol2;&lol2;&lol2;">]>` + respOpen + `<saml:Issuer>&lol3;</saml:Issuer></samlp:Response>`))
	case "invalid_utf8":
		m := append([]byte{}, garbageBases()["sso"]...)
		i := strings.Index(string(m), "alice@")
		m[i], m[i+1] = 0xff, 0xfe
		return b64(m)
	case "undeclared_prefix":
		return b64([]byte(`<foo:Response ID="_x"><bar:Assertion/></foo:Response>`))
	case "colon_names":
		return b64([]byte(respOpen + `<a:b:c xmlns:a="urn:a"/><saml::Assertion/><:x/></samlp:Response>`))
	case "deep_nesting":
		n := 5000 * scale
		return b64([]byte(respOpen + strings.Repeat("<saml:Advice>", n) + strings.Repeat("</saml:Advice>", n) + "</samlp:Response>"))
	case "wide_tree":
		return b64([]byte(respOpen + strings.Repeat("<saml:Assertion/>", 20000*scale) + "</samlp:Response>"))
	case "many_attributes":
		var sb strings.Builder
		sb.WriteString(`<samlp:Response xmlns:samlp="urn:oasis:names:tc:SAML:2.0:protocol"`)
		for i := 0; i < 5000*scale; i++ {
			fmt.Fprintf(&sb, ` a%d="v"`, i)
		}
		sb.WriteString("/>")
		return b64([]byte(sb.String()))
	case "huge_text":
		return b64([]byte(respOpen + "<saml:Issuer>" + strings.Repeat("A", 500000*scale) + "</saml:Issuer></samlp:Response>"))
	case "xmlns_abuse":
		return b64([]byte(`<samlp:Response xmlns:samlp="urn:oasis:names:tc:SAML:2.0:protocol" xmlns:xmlns="urn:x" xmlns:xml="urn:wrong" xmlns="" ID="_x"><Assertion xmlns="urn:oasis:names:tc:SAML:2.0:assertion" xmlns:samlp="urn:other"><samlp:Response/></Assertion></samlp:Response>`))
	case "only_text":
		return b64([]byte("just some text, no markup at all"))
	}
	orch.Fatal("garbage: unknown free class %q", class)
	return ""
}

func positional(class string, m []byte, off int) string {
	b64 := base64.StdEncoding.EncodeToString
	clamp := func(n, max int) int {
		if n < 0 {
			return 0
		}
		if n > max {
			return max
		}
		return n
	}
	switch class {
	case "truncate":
		return b64(m[:clamp(off, len(m))])
	case "truncate_deflated":
		d := idp.Deflate(m, 6)
		return b64(d[:clamp(off*len(d)/(len(m)+1), len(d))])
	case "bitflip", "bitflip_deflated":
		src := m
		if class == "bitflip_deflated" {
			src = idp.Deflate(m, 6)
			off = off * len(src) / (len(m) + 1)
		}
		c := append([]byte{}, src...)
		if len(c) > 0 {
			i := clamp(off, len(c)-1)
			c[i] ^= 1 << uint(off%8)
		}
		return b64(c)
	case "delete_byte":
		i := clamp(off, len(m)-1)
		return b64(append(append([]byte{}, m[:i]...), m[i+1:]...))
	case "insert_lt":
		i := clamp(off, len(m))
		return b64(append(append(append([]byte{}, m[:i]...), '<'), m[i:]...))
	case "dup_region":
		i := clamp(off, len(m))
		j := clamp(off+50, len(m))
		return b64(append(append(append([]byte{}, m[:j]...), m[i:j]...), m[j:]...))
	}
	orch.Fatal("garbage: unknown positional class %q", class)
	return ""
}

func structural(class string) string {
	bases := garbageBases()
	base := "sso"
	if strings.HasPrefix(class, "enc_") {
		base = "ssoenc"
	}
	d := etree.NewDocument()
	if err := d.ReadFromBytes(bases[base]); err != nil {
		panic(err)
	}
	root := d.Root()
	find := func(path string) *etree.Element {
		e := root.FindElement(path)
		if e == nil {
			orch.Fatal("garbage: %s: no %s", class, path)
		}
		return e
	}
	switch class {
	case "sig_no_signedinfo":
		s := find("./Signature")
		s.RemoveChild(find("./Signature/SignedInfo"))
	case "sig_two_signedinfo":
		s := find("./Signature")
		s.AddChild(find("./Signature/SignedInfo").Copy())
	case "sig_no_value":
		find("./Signature").RemoveChild(find("./Signature/SignatureValue"))
	case "sig_empty_uri":
		find("./Signature/SignedInfo/Reference").CreateAttr("URI", "")
	case "sig_hash_uri":
		find("./Signature/SignedInfo/Reference").CreateAttr("URI", "#")
	case "sig_bad_digest_b64":
		find("./Signature/SignedInfo/Reference/DigestValue").SetText("@@@@")
	case "sig_unknown_c14n":
		find("./Signature/SignedInfo/CanonicalizationMethod").CreateAttr("Algorithm", "urn:nope")
	case "sig_unknown_sigalg":
		find("./Signature/SignedInfo/SignatureMethod").CreateAttr("Algorithm", "urn:nope")
	case "sig_unknown_digest":
		find("./Signature/SignedInfo/Reference/DigestMethod").CreateAttr("Algorithm", "urn:nope")
	case "sig_empty_keyinfo":
		k := find("./Signature/KeyInfo")
		k.Child = nil
	case "sig_garbage_cert":
		find("./Signature/KeyInfo/X509Data/X509Certificate").SetText(base64.StdEncoding.EncodeToString(rnd(300)))
	case "sig_no_reference":
		find("./Signature/SignedInfo").RemoveChild(find("./Signature/SignedInfo/Reference"))
	case "sig_no_transforms":
		find("./Signature/SignedInfo/Reference").RemoveChild(find("./Signature/SignedInfo/Reference/Transforms"))
	case "enc_no_cipherdata":
		find("./EncryptedAssertion/EncryptedData").RemoveChild(find("./EncryptedAssertion/EncryptedData/CipherData"))
	case "enc_no_method":
		find("./EncryptedAssertion/EncryptedData").RemoveChild(find("./EncryptedAssertion/EncryptedData/EncryptionMethod"))
	case "enc_empty_key":
		find("./EncryptedAssertion/EncryptedData/KeyInfo/EncryptedKey/CipherData/CipherValue").SetText("")
	case "enc_two_keys":
		ki := find("./EncryptedAssertion/EncryptedData/KeyInfo")
		ki.AddChild(find("./EncryptedAssertion/EncryptedData/KeyInfo/EncryptedKey").Copy())
	case "enc_nested_enc":
		ea := find("./EncryptedAssertion")
		find("./EncryptedAssertion/EncryptedData").AddChild(ea.Copy())
	default:
		orch.Fatal("garbage: unknown structural class %q", class)
	}
	return base64.StdEncoding.EncodeToString(idp.Plain(root))
}

func (Garbage) Run(c *orch.Case) *orch.Outcome {
	var cfg zCfg
	var in zInput
	if json.Unmarshal(c.Cfg, &cfg) != nil || json.Unmarshal(c.Input, &in) != nil {
		orch.Fatal("garbage: bad case")
	}
	rng := mrand.New(mrand.NewSource(c.Seed))
	quick := true
	if t := orchTier(); t == "thorough" {
		quick = false
	}
	isDec := in.Entry == "decryptBytes" || in.Entry == "decrypt"
	var enc string
	bases := garbageBases()
	switch {
	case in.Class == "fuzz":
		enc = in.Blob
	case in.Class == "alg_slot":
		enc = algSlot(in.Base, in.Pos, in.Blob, isDec)
	case in.Class == "id_chars":
		d := etree.NewDocument()
		if err := d.ReadFromBytes(bases[in.Base]); err != nil {
			panic(err)
		}
		d.Root().CreateAttr("ID", in.Blob)
		b, _ := d.WriteToBytes()
		enc = idp.Encode(b, in.Pos == 1)
	case in.Class == "decl_encoding":
		doc := append([]byte(`<?xml version="1.0" encoding="`+in.Blob+`"?>`), bases[in.Base]...)
		enc = idp.Encode(doc, in.Pos == 1)
	case strings.HasPrefix(in.Class, "sig_") || strings.HasPrefix(in.Class, "enc_"):
		enc = structural(in.Class)
	case in.Base != "" && in.Class != "" && isPositional(in.Class):
		m := bases[in.Base]
		if isDec {
			m = gbEncEl
		}
		off := in.Pos // absolute offset (sweeps)
		if in.Of != -1 {
			of := 6 // the tier's Positions constant
			if !quick {
				of = 24
			}
			off = in.Pos * len(m) / of
		}
		enc = positional(in.Class, m, off)
	default:
		enc = freeInput(in.Class, rng, quick)
	}

	var sp *saml2.SAMLServiceProvider
	var cert *tls.Certificate
	if cfg.SP == "bare" {
		sp = &saml2.SAMLServiceProvider{IDPCertificateStore: &dsig.MemoryX509CertificateStore{}}
		cert = &tls.Certificate{}
	} else {
		sp = world.Get().NewSP()
		switch cfg.SP {
		case "maxlimit":
			sp.MaximumDecompressedBodySize = math.MaxInt64
		case "neglimit":
			sp.MaximumDecompressedBodySize = -2
		}
		w := world.Get()
		cert = &tls.Certificate{Certificate: [][]byte{w.SP.DER}, PrivateKey: w.SP.Key}
	}
	o := &zObs{}
	trivial := false
	if isDec {
		raw, err := base64.StdEncoding.DecodeString(enc)
		var ea types.EncryptedAssertion
		if err != nil || xml.Unmarshal(raw, &ea) != nil {
			// the routine is not reachable with octets that do not decode into its receiver
			o.Res, trivial = "reject", true
		} else {
			func() {
				defer func() {
					if r := recover(); r != nil {
						o.Res, o.Err = "panic", fmt.Sprint(r)
					}
				}()
				if in.Entry == "decryptBytes" {
					b, err := ea.DecryptBytes(cert)
					// C09 convention for []byte results: "result" means err == nil
					if err != nil && b != nil {
						o.Res = "both"
					} else if err != nil {
						o.Res, o.Err = "reject", err.Error()
					} else {
						o.Res = "accept"
					}
				} else {
					a, err := ea.Decrypt(cert)
					o.Res, o.Err = classify(a == nil, err)
				}
			}()
		}
	} else {
		res, _, errc := callEntry(sp, in.Entry, enc)
		o.Res, o.Err = res, errc
	}
	if len(o.Err) > 160 {
		o.Err = o.Err[:160]
	}
	rep := map[string]any{"entry": in.Entry, "sp": cfg.SP}
	if len(enc) < 20000 {
		rep["encoded_input"] = enc
	} else {
		rep["encoded_input_prefix"] = enc[:2000]
		rep["encoded_input_len"] = len(enc)
	}
	return &orch.Outcome{Obs: o, Trivial: trivial, Replay: rep}
}

func isPositional(c string) bool {
	switch c {
	case "truncate", "truncate_deflated", "bitflip", "bitflip_deflated", "delete_byte", "insert_lt", "dup_region":
		return true
	}
	return false
}

// Extra sweeps truncation and bit flips over (nearly) every offset of every genuine base message.
func (Garbage) Extra(tier string, seed int64) []orch.Case {
	var out []orch.Case
	step := 11
	if tier == "thorough" {
		step = 1
	}
	entryFor := map[string][]string{"sso": {"validate", "predecodeResp"}, "ssoenc": {"info"}, "logoutReq": {"logoutReq"}, "logoutResp": {"logoutResp", "predecodeLogout"}}
	for base, m := range garbageBases() {
		for _, entry := range entryFor[base] {
			for off := int(seed) % step; off <= len(m); off += step {
				for _, class := range []string{"truncate", "bitflip"} {
					in, _ := json.Marshal(zInput{Entry: entry, Class: class, Base: base, Pos: off, Of: -1})
					out = append(out, orch.Case{Src: "sweep", Cfg: json.RawMessage(`{"sp":"normal"}`), Input: in, Seed: seed})
				}
			}
		}
	}
	for off := 0; off <= len(gbEncEl); off += step {
		in, _ := json.Marshal(zInput{Entry: "decryptBytes", Class: "bitflip", Base: "ssoenc", Pos: off, Of: -1})
		out = append(out, orch.Case{Src: "sweep", Cfg: json.RawMessage(`{"sp":"normal"}`), Input: in, Seed: seed})
	}
	// every algorithm identifier the code or the standards know, in every place where a message names an algorithm
	uris := algorithmURIs()
	for slot, sl := range algSlots {
		entries := map[string][]string{"ssoenc": {"validate", "info", "decryptBytes", "decrypt"}, "sso": {"validate", "info"}}[sl.base]
		for _, u := range uris {
			for _, entry := range entries {
				in, _ := json.Marshal(zInput{Entry: entry, Class: "alg_slot", Base: sl.base, Pos: slot, Of: -1, Blob: u})
				out = append(out, orch.Case{Src: "algs", Cfg: json.RawMessage(`{"sp":"normal"}`), Input: in, Seed: seed})
			}
		}
	}
	// every genuine message with its ID replaced by strings that are legal attribute values but mean something to
	// path expressions, quoting and formatting code
	for base, entries := range entryFor {
		for _, id := range oddIDs {
			for _, entry := range entries {
				in, _ := json.Marshal(zInput{Entry: entry, Class: "id_chars", Base: base, Pos: len(id) % 2, Of: -1, Blob: id})
				out = append(out, orch.Case{Src: "ids", Cfg: json.RawMessage(`{"sp":"normal"}`), Input: in, Seed: seed})
			}
		}
	}
	// every genuine message behind an XML declaration that names an encoding
	for base, entries := range entryFor {
		for _, label := range declEncodings {
			for _, entry := range entries {
				for deflate := 0; deflate < 2; deflate++ {
					in, _ := json.Marshal(zInput{Entry: entry, Class: "decl_encoding", Base: base, Pos: deflate, Of: -1, Blob: label})
					out = append(out, orch.Case{Src: "decl", Cfg: json.RawMessage(`{"sp":"normal"}`), Input: in, Seed: seed})
				}
			}
		}
	}
	return append(out, fuzzCases(tier, seed)...)
}

var oddIDs = []string{"_id'q", "_id[0]", "_a]b", `_a"b`, "_a/b", "_a=b", "_a*", "_a@b", "_(x)", "_a|b", "_a b", "", "_a'][@x='", "//*", "..", "_%s%d%v", "_{{.}}", "_a\\b", "_\u00e9\u4e2d", strings.Repeat("_long", 1200), "_a\tb", "_a&b<c>"}

var declEncodings = []string{"UTF-8", "utf-8", "UTF8", "utf8", "UTF-16", "UTF-16LE", "UTF-16BE", "UTF-32", "ISO-8859-1", "iso-8859-15", "latin1", "windows-1252",
	"us-ascii", "ASCII", "EBCDIC-CP-US", "UTF-7", "UTF-9", "WTF-8", "", " ", "x", "UTF-8 ", "KOI8-R", "Shift_JIS", "GB2312", "Big5", "ISO-10646-UCS-2", "unicode"}

type algSlotDef struct {
	base, parent, name, space string // element <space:name> under parent (created when absent), attribute Algorithm
}

var algSlots = []algSlotDef{
	{"ssoenc", "./EncryptedAssertion/EncryptedData", "EncryptionMethod", "xenc"},
	{"ssoenc", "./EncryptedAssertion/EncryptedData/KeyInfo/EncryptedKey", "EncryptionMethod", "xenc"},
	{"ssoenc", "./EncryptedAssertion/EncryptedData/KeyInfo/EncryptedKey/EncryptionMethod", "DigestMethod", "ds"},
	{"ssoenc", "./EncryptedAssertion/EncryptedData/KeyInfo/EncryptedKey/EncryptionMethod", "MGF", "xenc11"},
	{"sso", "./Signature/SignedInfo", "SignatureMethod", "ds"},
	{"sso", "./Signature/SignedInfo", "CanonicalizationMethod", "ds"},
	{"sso", "./Signature/SignedInfo/Reference", "DigestMethod", "ds"},
	{"sso", "./Signature/SignedInfo/Reference/Transforms", "Transform", "ds"},
}

// algSlot returns the genuine message with one algorithm identifier replaced.
func algSlot(base string, slot int, uri string, bareEnc bool) string {
	sl := algSlots[slot]
	d := etree.NewDocument()
	if err := d.ReadFromBytes(garbageBases()[base]); err != nil {
		panic(err)
	}
	parent := d.Root().FindElement(sl.parent)
	if parent == nil {
		orch.Fatal("garbage: alg slot %d: no %s", slot, sl.parent)
	}
	el := parent.SelectElement(sl.name)
	if el == nil {
		el = etree.NewElement(sl.name)
		el.Space = sl.space
		el.CreateAttr("xmlns:"+sl.space, map[string]string{"ds": idp.NSDsig, "xenc": idp.NSXenc, "xenc11": "http://www.w3.org/2009/xmlenc11#"}[sl.space])
		parent.AddChild(el)
	}
	el.CreateAttr("Algorithm", uri)
	if bareEnc {
		ea := d.Root().FindElement("./EncryptedAssertion")
		// the element on its own needs the namespace declarations it inherited
		for _, a := range d.Root().Attr {
			if a.Space == "xmlns" && ea.SelectAttr("xmlns:"+a.Key) == nil {
				ea.CreateAttr("xmlns:"+a.Key, a.Value)
			}
		}
		nd := etree.NewDocument()
		nd.SetRoot(ea.Copy())
		b, _ := nd.WriteToBytes()
		return base64.StdEncoding.EncodeToString(b)
	}
	b, _ := d.WriteToBytes()
	return base64.StdEncoding.EncodeToString(b)
}

// algorithmURIs: the URI-shaped string literals of the library source under check plus the identifiers of the XML
// Signature / XML Encryption recommendations and RFC 6931.
func algorithmURIs() []string {
	seen := map[string]bool{}
	var out []string
	add := func(u string) {
		if !seen[u] {
			seen[u] = true
			out = append(out, u)
		}
	}
	for _, l := range SourceLiterals() {
		if (strings.HasPrefix(l, "http://") || strings.HasPrefix(l, "urn:")) && !strings.ContainsAny(l, " \"<>") {
			add(l)
		}
	}
	for _, f := range []string{"aes128-cbc", "aes192-cbc", "aes256-cbc", "tripledes-cbc", "rsa-1_5", "rsa-oaep-mgf1p", "sha256", "sha512", "ripemd160",
		"kw-aes128", "kw-aes192", "kw-aes256", "kw-tripledes", "dh", "Element", "Content"} {
		add("http://www.w3.org/2001/04/xmlenc#" + f)
	}
	for _, f := range []string{"aes128-gcm", "aes192-gcm", "aes256-gcm", "rsa-oaep", "mgf1sha1", "mgf1sha224", "mgf1sha256", "mgf1sha384", "mgf1sha512", "ConcatKDF", "pbkdf2"} {
		add("http://www.w3.org/2009/xmlenc11#" + f)
	}
	for _, f := range []string{"sha1", "rsa-sha1", "dsa-sha1", "hmac-sha1", "enveloped-signature", "base64", "Object", "Manifest"} {
		add("http://www.w3.org/2000/09/xmldsig#" + f)
	}
	for _, f := range []string{"md5", "sha224", "sha384", "rsa-md5", "rsa-sha224", "rsa-sha256", "rsa-sha384", "rsa-sha512", "rsa-ripemd160", "ecdsa-sha1", "ecdsa-sha224",
		"ecdsa-sha256", "ecdsa-sha384", "ecdsa-sha512", "hmac-md5", "hmac-sha256", "hmac-sha512", "rsa-pss", "sha256-rsa-MGF1", "whirlpool", "sha3-256"} {
		add("http://www.w3.org/2001/04/xmldsig-more#" + f)
	}
	for _, u := range []string{"http://www.w3.org/2001/10/xml-exc-c14n#", "http://www.w3.org/2001/10/xml-exc-c14n#WithComments", "http://www.w3.org/TR/2001/REC-xml-c14n-20010315",
		"http://www.w3.org/TR/2001/REC-xml-c14n-20010315#WithComments", "http://www.w3.org/2006/12/xml-c14n11", "http://www.w3.org/2006/12/xml-c14n11#WithComments",
		"http://www.w3.org/TR/1999/REC-xpath-19991116", "http://www.w3.org/2002/06/xmldsig-filter2", "http://www.w3.org/TR/1999/REC-xslt-19991116",
		"http://www.w3.org/2007/05/xmldsig-more#sha3-512", "http://www.w3.org/2009/xmldsig11#dsa-sha256", "", "urn:nope", "#", "sha256"} {
		add(u)
	}
	return out
}

func (Garbage) Corrupt(c *orch.Case, o *orch.Outcome) (any, string, bool) {
	return &zObs{Res: "panic"}, "C09", true
}
