package fam

import (
	"encoding/json"
	"fmt"
	"github.com/beevik/etree"
	saml2 "github.com/russellhaering/gosaml2"
	"math/rand"
	"strings"
	"sync"
	"time"

	"verifharness/idp"
	"verifharness/orch"
	"verifharness/world"
)

// nearRng picks the near-miss flavour; which flavour is irrelevant to the expected outcome.
var nearRng = rand.New(rand.NewSource(99))
var nearMu sync.Mutex

// Profile concretises spec/Profile.tla: faults inside validly signed documents.
type Profile struct{}

type pRoot struct{ Version, Dest, Issuer, Status string }
type pAs struct{ Issuer, Subject, Conf, Method, Data, Recipient, Noa, Authn, Advice, Attrs string }
type pInput struct {
	Sigmode string `json:"sigmode"`
	Doc     struct {
		Root pRoot `json:"root"`
		As   []pAs `json:"as"`
	} `json:"doc"`
}
type pCfg struct {
	Skip      bool `json:"skip"`
	IssuerCfg bool `json:"issuerCfg"`
	AllowMiss bool `json:"allowMissing"`
}
type pInfo struct {
	Res string `json:"res"`
	Err ErrObs `json:"err"`
}
type pObs struct {
	Res   string `json:"res"`
	Err   ErrObs `json:"err"`
	Info  pInfo  `json:"info"`
	RFlag bool   `json:"rflag"`
	IFlag bool   `json:"iflag"`
	// ValsFirst: the summary's attribute values, NameID and SessionIndex are those of the FIRST assertion (and of no other)
	ValsFirst bool `json:"vals_first"`
}

func (Profile) Name() string { return "Profile" }
func (Profile) MC(tier string) (string, string) {
	return "MC_Profile.tla", "MC_Profile_" + tier + ".cfg"
}
func (Profile) Trace() (string, string)         { return "Trace_Profile.tla", "Trace_Profile.cfg" }
func (Profile) Cap(tier string) int             { return 0 }
func (Profile) Layouts(tier string) int         { return 1 }
func (Profile) Extra(string, int64) []orch.Case { return nil }

// nearMiss returns a URL that a lenient comparison would take for base.
func nearMiss(base string, rng *rand.Rand) string {
	i := strings.Index(base, "://") + 3
	switch rng.Intn(9) {
	case 6:
		// values that are not URLs at all for net/url (the configured value is compared as a string)
		return []string{"https://sp:acs/", "http://[::1", "%zz", base + "%zz", "1https://sp.example.com/x", "https://sp example.com/acs", base + "\x7f", "://", "https://sp.example.com:99999999999/"}[rng.Intn(9)]
	case 7:
		// Unicode look-alikes under case folding (U+017F LATIN SMALL LETTER LONG S, U+212A KELVIN SIGN)
		return strings.Replace(strings.Replace(base, "s", "\u017f", 1), "k", "\u212a", 1)
	case 8:
		return base[:i] + base[i:i+2] + "%2e" + base[i+3:] // percent-encoded dot in the host
	case 0:
		return base + "?next=//evil.example"
	case 1:
		return base + "#fragment"
	case 2:
		return base[:i] + "attacker@" + base[i:]
	case 3:
		return base[:i] + strings.ToUpper(base[i:i+3]) + base[i+3:]
	case 4:
		return base + "/"
	default:
		return strings.ToUpper(base[:5]) + base[5:]
	}
}

func applyRootFaults(r *idp.Response, f pRoot) {
	switch f.Version {
	case "absent":
		r.Version = nil
	case "wrong":
		// other versions, and strings that only a numeric reading would take for 2.0
		vs := []string{"1.1", "1.0", "2.1", "2", "2.00", "02.0", "+2.0", "2.-0", "2.0.0", " 2.0", "2.0 ", "\uff12.0", "2,0", "2.0e0"}
		r.Version = idp.S(vs[nearRng.Intn(len(vs))])
	}
	switch f.Dest {
	case "other":
		r.Destination = idp.S("https://evil.example/acs")
	case "near":
		if r.Destination != nil {
			r.Destination = idp.S(nearMiss(*r.Destination, nearRng))
		}
	case "absent":
		r.Destination = nil
	case "empty":
		r.Destination = idp.S("")
	}
	switch f.Issuer {
	case "absent":
		r.Issuer = nil
	case "other":
		r.Issuer = idp.S("https://other-idp.example/metadata")
	}
	switch f.Status {
	case "nostatus":
		r.HasStatus = false
	case "nocode":
		r.StatusCode = nil
	case "fail":
		r.StatusCode = idp.S("urn:oasis:names:tc:SAML:2.0:status:Responder")
	case "nestfail":
		r.StatusCode = idp.S("urn:oasis:names:tc:SAML:2.0:status:Responder")
		r.SubStatus = idp.S(idp.StatusSuccess)
	case "nestok":
		r.SubStatus = idp.S("urn:oasis:names:tc:SAML:2.0:status:AuthnFailed")
	}
}

func applyAsFaults(a *idp.Assertion, f pAs) {
	switch f.Issuer {
	case "absent":
		a.Issuer = nil
	case "other":
		a.Issuer = idp.S("https://other-idp.example/metadata")
	}
	if f.Method == "other" {
		a.Subject.Conf.Method = "urn:oasis:names:tc:SAML:2.0:cm:holder-of-key"
	}
	switch f.Recipient {
	case "absent":
		a.Subject.Conf.Data.Recipient = nil
	case "other":
		a.Subject.Conf.Data.Recipient = idp.S("https://evil.example/acs")
	case "near":
		a.Subject.Conf.Data.Recipient = idp.S(nearMiss(world.ACS, nearRng))
	}
	if f.Authn == "absent" {
		a.Authn = nil
	}
	if f.Attrs == "absent" {
		a.Attrs = nil
	}
	switch f.Noa {
	case "absent":
		a.Subject.Conf.Data.NotOnOrAfter = nil
	case "malformed":
		a.Subject.Conf.Data.NotOnOrAfter = idp.S("not-a-time")
	case "past":
		a.Subject.Conf.Data.NotOnOrAfter = idp.S(world.RFC(world.Now.Add(-time.Minute)))
	}
	if f.Data == "absent" {
		a.Subject.Conf.Data = nil
	}
	if f.Conf == "absent" {
		a.Subject.Conf = nil
	}
	if f.Subject == "absent" {
		a.Subject = nil
	}
}

func (Profile) Run(c *orch.Case) *orch.Outcome {
	var cfg pCfg
	var in pInput
	if json.Unmarshal(c.Cfg, &cfg) != nil || json.Unmarshal(c.Input, &in) != nil {
		orch.Fatal("profile: bad case")
	}
	w := world.Get()
	rng := rand.New(rand.NewSource(c.Seed))
	lay := layoutFor(rng, true)
	b := idp.NewBuilder(lay, c.Seed+1)
	rs := genuineRoot()
	nearMu.Lock()
	nearRng = rand.New(rand.NewSource(c.Seed + 5))
	applyRootFaults(rs, in.Doc.Root)
	root := b.ResponseEl(rs)
	var els []*etree.Element
	firstAttrs := map[string][]string{}
	var firstNameID *string
	for i, af := range in.Doc.As {
		spec := world.Content([]string{"GA1", "GA2", "GA1"}[i%3])
		spec.ID = fmt.Sprintf("_assert-p%d", i+1)
		applyAsFaults(spec, af)
		if i == 0 {
			if spec.Attrs != nil {
				for _, a := range *spec.Attrs {
					firstAttrs[a.Name] = a.Values
				}
			}
			if spec.Subject != nil {
				firstNameID = spec.Subject.NameID
			}
		}
		el := b.AssertionEl(spec, false)
		if af.Advice == "nested" {
			ev := world.Content("GA2")
			ev.ID = fmt.Sprintf("_evidence-p%d", i+1)
			b.AdviceInto(el, ownSigned(b, w, ev, true))
		}
		root.AddChild(el)
		els = append(els, el)
	}
	nearMu.Unlock()
	b.Decorate(root)
	switch in.Sigmode {
	case "assert":
		for _, el := range els {
			mustSign(el, idp.DefaultSig(w.IdpA.Key, w.IdpA.DER))
		}
	case "root":
		mustSign(root, idp.DefaultSig(w.IdpA.Key, w.IdpA.DER))
	}
	doc := idp.Serialize(root, lay, rng)
	enc := idp.Encode(doc, c.Seed%2 == 0)
	sp := spFor(c.Seed, fmt.Sprint("profile", cfg.Skip, cfg.IssuerCfg, cfg.AllowMiss), func() *saml2.SAMLServiceProvider {
		sp := w.NewSP()
		sp.SkipSignatureValidation = cfg.Skip
		sp.AllowMissingAttributes = cfg.AllowMiss
		if !cfg.IssuerCfg {
			sp.IdentityProviderIssuer = ""
		}
		return sp
	})
	o := &pObs{}
	func() {
		defer func() {
			if r := recover(); r != nil {
				o.Res = "panic"
			}
		}()
		r, err := sp.ValidateEncodedResponse(enc)
		o.Res, _ = classify(r == nil, err)
		o.Err = projectErr(err)
		if r != nil {
			o.RFlag = r.SignatureValidated
		}
	}()
	func() {
		defer func() {
			if r := recover(); r != nil {
				o.Info.Res = "panic"
			}
		}()
		r, err := sp.RetrieveAssertionInfo(enc)
		o.Info.Res, _ = classify(r == nil, err)
		o.Info.Err = projectErr(err)
		if r != nil {
			o.IFlag = r.ResponseSignatureValidated
			want := firstAttrs
			o.ValsFirst = len(r.Values) == len(want)
			for name, vals := range want {
				got := r.Values.GetAll(name)
				if len(got) != len(vals) {
					o.ValsFirst = false
					continue
				}
				for i := range vals {
					if got[i] != vals[i] {
						o.ValsFirst = false
					}
				}
			}
			if firstNameID != nil && r.NameID != *firstNameID {
				o.ValsFirst = false
			}
		}
	}()
	return &orch.Outcome{Obs: o, Replay: map[string]any{"encoded_response": enc, "document": string(doc), "sp": describeSP(sp), "layout": lay}}
}

func (Profile) Corrupt(c *orch.Case, o *orch.Outcome) (any, string, bool) {
	ob := o.Obs.(*pObs)
	if ob.Res != "reject" || ob.Err.Cls != "typed" {
		return nil, "", false
	}
	cp := *ob
	cp.Res, cp.Err = "accept", ErrObs{Cls: "none", Names: []string{}}
	cp.Info = pInfo{Res: "accept", Err: ErrObs{Cls: "none", Names: []string{}}}
	return &cp, "C03", true
}
