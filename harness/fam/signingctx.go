//go:build verif

package fam

import (
	"encoding/json"
	"fmt"
	"math/rand"
	"reflect"
	"sync"

	"github.com/beevik/etree"
	saml2 "github.com/russellhaering/gosaml2"
	dsig "github.com/russellhaering/goxmldsig"

	"verifharness/idp"
	"verifharness/orch"
	"verifharness/sched"
	"verifharness/world"
)

// SigningCtx replays every interleaving TLC enumerates for spec/SigningCtx.tla through the real
// SigningContext(), gate by gate, and records what was observed.
type SigningCtx struct{}

type scInput struct {
	Sched [][]json.RawMessage `json:"sched"`
}
type scCfg struct {
	N int `json:"n"`
	K int `json:"k"`
}
type scObs struct {
	Events    [][2]any `json:"events"`
	Rets      [][]int  `json:"rets"`
	ResultsOK bool     `json:"results_ok"`
	Stuck     bool     `json:"stuck"`
	Note      string   `json:"note"`
}

func (SigningCtx) Name() string { return "SigningCtx" }
func (SigningCtx) MC(tier string) (string, string) {
	return "MC_SigningCtx.tla", "MC_SigningCtx_" + tier + ".cfg"
}
func (SigningCtx) Trace() (string, string) {
	return "Trace_SigningCtx.tla", "Trace_SigningCtx_" + orchTier() + ".cfg"
}
func (SigningCtx) Cap(tier string) int {
	if tier == "thorough" {
		return 4000
	}
	return 0
}
func (SigningCtx) Layouts(tier string) int         { return 1 }
func (SigningCtx) Extra(string, int64) []orch.Case { return nil }

var gateLabel = map[string]string{"sc.rlock": "L_rlock", "sc.rlocked": "L_read", "sc.runlock": "L_runlock", "sc.lock": "L_lock", "sc.locked": "L_publish", "sc.unlock": "L_unlock"}

// one operation that goes through SigningContext() exactly once; returns whether its result is
// what the same call returns on a private, identically configured SP
func scOp(sp *saml2.SAMLServiceProvider, which int) (ok bool, ctx *dsig.SigningContext, note string) {
	defer func() {
		if r := recover(); r != nil {
			ok, note = false, fmt.Sprint("panic: ", r)
		}
	}()
	checkDoc := func(doc *etree.Document, err error) (bool, string) {
		if err != nil || doc == nil {
			return false, fmt.Sprint("build: ", err)
		}
		b, _ := doc.WriteToBytes()
		o := &oObs{}
		analyseSignature(b, o)
		if o.Sigcount != 1 || !o.SigposOK || o.VerifiedBy != "signSetter" || !o.DigestOK || o.Alg != "rsa-sha512" || o.C14n != "exc" || o.Embedded != "signSetter" {
			return false, fmt.Sprintf("signature: %+v", *o)
		}
		return true, ""
	}
	switch which % 4 {
	case 0:
		c := sp.SigningContext()
		if c == nil {
			return false, nil, "nil context"
		}
		if c.GetSignatureMethodIdentifier() != idp.SigRSASHA512 || c.Canonicalizer == nil || string(c.Canonicalizer.Algorithm()) != idp.C14NExc {
			return false, c, "context not configured: " + c.GetSignatureMethodIdentifier()
		}
		return true, c, ""
	case 1:
		ok, note = checkDoc(sp.BuildAuthRequestDocument())
	case 2:
		ok, note = checkDoc(sp.BuildLogoutRequestDocument("alice@example.com", "sess-1"))
	default:
		ok, note = checkDoc(sp.BuildLogoutResponseDocument(saml2.StatusCodeSuccess, "_req-1"))
	}
	return ok, nil, note
}

func scSP() *saml2.SAMLServiceProvider {
	ks := outboundKeys()
	sp := world.Get().NewSP()
	sp.SignAuthnRequests = true
	sp.SignAuthnRequestsAlgorithm = idp.SigRSASHA512
	sp.SignAuthnRequestsCanonicalizer = dsig.MakeC14N10ExclusiveCanonicalizerWithPrefixList("")
	sp.SetSPSigningKeyStore(&saml2.KeyStore{Signer: ks["signSetter"].Key, Cert: ks["signSetter"].DER})
	// optional settings are in use too (a blank class reference between two others is legal, if odd): nothing a call
	// does may write to any of this
	sp.ForceAuthn = true
	sp.NameIdFormat = saml2.NameIdFormatPersistent
	sp.RequestedAuthnContext = &saml2.RequestedAuthnContext{Comparison: saml2.AuthnPolicyMatchExact,
		Contexts: []string{saml2.AuthnContextPasswordProtectedTransport, "", "urn:oasis:names:tc:SAML:2.0:ac:classes:X509"}}
	return sp
}

func (SigningCtx) Run(c *orch.Case) *orch.Outcome {
	var cfg scCfg
	var in scInput
	if json.Unmarshal(c.Cfg, &cfg) != nil || json.Unmarshal(c.Input, &in) != nil {
		orch.Fatal("signingctx: bad case")
	}
	var order []int // which process the schedule advances, step by step
	for _, e := range in.Sched {
		var p int
		var lab string
		json.Unmarshal(e[0], &p)
		json.Unmarshal(e[1], &lab)
		if lab != "L_config" { // configuration happens inside the publish segment of the real code
			order = append(order, p-1)
		}
	}
	rng := rand.New(rand.NewSource(c.Seed))
	sp := scSP()
	run := sched.NewRun(cfg.N)
	o := &scObs{ResultsOK: true, Rets: make([][]int, cfg.N), Events: [][2]any{}}
	for i := range o.Rets {
		o.Rets[i] = []int{}
	}
	var mu sync.Mutex
	ctxID := map[*dsig.SigningContext]int{}
	ops := make([][]int, cfg.N)
	for p := 0; p < cfg.N; p++ {
		for k := 0; k < cfg.K; k++ {
			ops[p] = append(ops[p], rng.Intn(4))
		}
	}
	type result struct {
		ok   bool
		note string
	}
	results := make([][]result, cfg.N)
	for p := 0; p < cfg.N; p++ {
		p := p
		run.Go(p, func(gate func(string)) {
			for k := 0; k < cfg.K; k++ {
				gate("start")
				ok, _, note := scOp(sp, ops[p][k])
				mu.Lock()
				results[p] = append(results[p], result{ok, note})
				mu.Unlock()
			}
		})
	}
	ev := func(p int, lab string) { o.Events = append(o.Events, [2]any{p + 1, lab}) }
	// identity of the shared context as actually stored in the SP (read while the goroutines are
	// parked at gates; the gate hand-off orders these reads after the writes)
	ptrID := map[uintptr]int{}
	curPtr := func() uintptr {
		return reflect.ValueOf(sp).Elem().FieldByName("signingContext").Pointer()
	}
	idOf := func(ptr uintptr) int {
		if ptr == 0 {
			return 0
		}
		if id, ok := ptrID[ptr]; ok {
			return id
		}
		ptrID[ptr] = len(ptrID) + 1
		return ptrID[ptr]
	}
	localSeen := make([]int, cfg.N)
	advance := func(p int) bool {
		at, ok := run.At(p)
		if !ok {
			o.Stuck, o.Note = true, fmt.Sprintf("process %d did not reach a gate", p+1)
			return false
		}
		if at == "exit" {
			return true
		}
		if at == "start" {
			ev(p, "L_call")
			run.Release(p)
			at, ok = run.At(p)
			if !ok {
				o.Stuck, o.Note = true, fmt.Sprintf("process %d blocked after start", p+1)
				return false
			}
			if at == "exit" || at == "start" {
				return true // an operation that did not touch the signing context
			}
		}
		lab := gateLabel[at]
		before := curPtr()
		if lab != "L_publish" {
			ev(p, lab)
		}
		run.Release(p)
		if _, ok := run.At(p); !ok {
			o.Stuck, o.Note = true, fmt.Sprintf("process %d blocked after %s", p+1, at)
			return false
		}
		switch lab {
		case "L_read":
			localSeen[p] = idOf(curPtr()) // no writer can be active while p holds the read lock
		case "L_publish":
			// the segment sc.locked -> sc.unlock allocates, publishes and configures: observed as a pointer change
			if after := curPtr(); after != before && after != 0 {
				idOf(after)
				ev(p, "L_publish")
				ev(p, "L_config")
			}
		case "L_runlock":
			if localSeen[p] != 0 {
				o.Rets[p] = append(o.Rets[p], localSeen[p])
			}
		case "L_unlock":
			o.Rets[p] = append(o.Rets[p], idOf(before))
		}
		return true
	}
	for _, p := range order {
		if p < 0 || p >= cfg.N || !advance(p) {
			break
		}
	}
	// let everything run to completion (the schedule is exhausted or was abandoned)
	for guard := 0; guard < 200 && !o.Stuck; guard++ {
		done := true
		for p := 0; p < cfg.N; p++ {
			if at, ok := run.At(p); ok && at != "exit" {
				done = false
				advance(p)
			} else if !ok {
				o.Stuck = true
			}
		}
		if done {
			break
		}
	}
	for p := 0; p < cfg.N; p++ {
		ev(p, "L_call") // the loop test that ends the process
	}
	mu.Lock()
	for p := range results {
		if len(results[p]) != cfg.K && !o.Stuck {
			o.ResultsOK, o.Note = false, fmt.Sprintf("process %d finished %d of %d calls", p+1, len(results[p]), cfg.K)
		}
		for _, r := range results[p] {
			if !r.ok {
				o.ResultsOK, o.Note = false, r.note
			}
		}
	}
	mu.Unlock()
	_ = ctxID
	if o.Stuck {
		sched.NoteStuck()
	}
	return &orch.Outcome{Obs: o, Replay: map[string]any{"ops": ops, "note": "forced schedule through SigningContext() with -tags verif gates"}}
}

func (SigningCtx) Corrupt(c *orch.Case, o *orch.Outcome) (any, string, bool) {
	ob := *(o.Obs.(*scObs))
	ob.ResultsOK = false
	return &ob, "C17", true
}
