package fam

import (
	"sort"
	"bytes"
	"crypto"
	"crypto/rsa"
	"crypto/x509"
	"encoding/base64"
	"encoding/json"
	"encoding/xml"
	"fmt"
	"io"
	"math/rand"
	"strconv"
	"strings"
	"sync"
	"time"
	_ "time/tzdata"

	"github.com/beevik/etree"
	saml2 "github.com/russellhaering/gosaml2"
	"github.com/russellhaering/gosaml2/types"
	dsig "github.com/russellhaering/goxmldsig"
	"github.com/russellhaering/goxmldsig/etreeutils"

	"verifharness/idp"
	"verifharness/orch"
	"verifharness/pyproj"
	"verifharness/world"
)

var dstOnce sync.Once
var dstLoc *time.Location

func dstZone() *time.Location {
	dstOnce.Do(func() {
		l, err := time.LoadLocation("America/New_York") // from the embedded time/tzdata
		if err != nil {
			orch.Fatal("tzdata: %v", err)
		}
		dstLoc = l
	})
	return dstLoc
}

// Outbound concretises spec/Outbound.tla.
type Outbound struct{}

type oInput struct {
	Sub          string `json:"sub"`
	Kind         string `json:"kind"`
	EncKey       string `json:"encKey"`
	SignKey      string `json:"signKey"`
	Alg          string `json:"alg"`
	C14n         string `json:"c14n"`
	SignReq      bool   `json:"signReq"`
	SPIssuer     bool   `json:"spIssuer"`
	ForceAuthn   bool   `json:"forceAuthn"`
	IsPassive    bool   `json:"isPassive"`
	NameIdFormat bool   `json:"nameIdFormat"`
	Rac          string `json:"rac"`
	Zone         string `json:"zone"`
	Strclass     string `json:"strclass"`
	Variant      string `json:"variant"`
	Hours        string `json:"hours"`
	Skip         bool   `json:"skip"`
	Keytype      string `json:"keytype"`
	Via          string `json:"via"`
}

type oObs struct {
	Built      bool     `json:"built"`
	Wellformed bool     `json:"wellformed"`
	Rootname   string   `json:"rootname"`
	RootnsOK   bool     `json:"rootns_ok"`
	Children   []string `json:"children"`
	Version    string   `json:"version"`
	InstantOK  bool     `json:"instant_ok"`
	DestOK     bool     `json:"dest_ok"`
	Issuer     string   `json:"issuer"`
	ValuesOK   bool     `json:"values_ok"`
	SkeletonOK bool     `json:"skeleton_ok"`
	Sigcount   int      `json:"sigcount"`
	SigposOK   bool     `json:"sigpos_ok"`
	VerifiedBy string   `json:"verified_by"`
	Embedded   string   `json:"embedded"`
	Reported   string   `json:"reported"`
	Metasign   string   `json:"metasign"`
	Alg        string   `json:"alg"`
	C14n       string   `json:"c14n"`
	DigestOK   bool     `json:"digest_ok"`
	// metadata
	EntityOK      bool   `json:"entity_ok"`
	AcsOK         bool   `json:"acs_ok"`
	SloOK         bool   `json:"slo_ok"`
	FlagsOK       bool   `json:"flags_ok"`
	Signcert      string `json:"signcert"`
	Enccert       string `json:"enccert"`
	MethodsOK     bool   `json:"methods_ok"`
	ValidOK       bool   `json:"valid_ok"`
	RoundtripOK   bool   `json:"roundtrip_ok"`
	MessageSigner string `json:"message_signer"`
	Decrypts      bool   `json:"decrypts"`
	Note          string `json:"note"`
}

func (Outbound) Name() string { return "Outbound" }
func (Outbound) MC(tier string) (string, string) {
	return "MC_Outbound.tla", "MC_Outbound_" + tier + ".cfg"
}
func (Outbound) Trace() (string, string)         { return "Trace_Outbound.tla", "Trace_Outbound.cfg" }
func (Outbound) Cap(tier string) int             { return 0 }
func (Outbound) Layouts(tier string) int         { return 1 }
func (Outbound) Extra(string, int64) []orch.Case { return nil }

var (
	obOnce sync.Once
	obKeys map[string]*idp.KeyPair // encField encSetter signField signSetter + EC variants
)

func outboundKeys() map[string]*idp.KeyPair {
	obOnce.Do(func() {
		w := world.Get()
		nb, na := world.T0.Add(-24*time.Hour), world.T0.Add(24*time.Hour)
		// The certificates of this family end in octets that careless handling of "blank" data would eat: ASCII
		// white space (0x20, 0x0A, 0x09 ...) or 0x00. A certificate is opaque DER; what is published or embedded must
		// be the configured octets, all of them. (Certificates are re-issued over the same keys until the last octet
		// of the signature, which is the last octet of the DER, falls into the wanted class.)
		edge := func(kp *idp.KeyPair, cn string, want func(byte) bool) *idp.KeyPair {
			for i := 0; i < 20000; i++ {
				c := idp.Cert(kp.Key, fmt.Sprintf("%s-%d", cn, i), nb, na)
				if want(c.DER[len(c.DER)-1]) {
					return c
				}
			}
			orch.Fatal("outbound: could not mint a certificate with the wanted last octet")
			return nil
		}
		ws := func(b byte) bool { return b == 0x20 || (b >= 0x09 && b <= 0x0d) }
		nul := func(b byte) bool { return b == 0 }
		obKeys = map[string]*idp.KeyPair{
			"encField": edge(w.SP, "sp-enc", ws), "encSetter": edge(w.SP2, "sp-enc-2", nul), "signField": edge(w.SPSign, "sp-sign", nul), "signSetter": edge(w.SPSign2, "sp-sign-2", ws),
			"encSetterEC":  edge(idp.Cert(idp.ECKey("spencEC"), "sp-enc-ec", nb, na), "sp-enc-ec", ws),
			"signSetterEC": edge(idp.Cert(idp.ECKey("spsignEC"), "sp-sign-ec", nb, na), "sp-sign-ec", nul),
		}
		obAlias = map[string]string{string(w.SP.DER): "encField", string(w.SP2.DER): "encSetter", string(w.SPSign.DER): "signField", string(w.SPSign2.DER): "signSetter"}
	})
	return obKeys
}

// obAlias: the same keys under the certificates the rest of the harness uses for them
var obAlias map[string]string

// keyName maps a DER certificate back to its role name.
func keyName(der []byte) string {
	if len(der) == 0 {
		return "none"
	}
	for n, k := range outboundKeys() {
		if bytes.Equal(k.DER, der) {
			return strings.TrimSuffix(n, "EC")
		}
	}
	if n, ok := obAlias[string(der)]; ok {
		return n
	}
	return "unknown"
}

var sigTok = map[string]string{idp.SigRSASHA1: "rsa-sha1", idp.SigRSASHA256: "rsa-sha256", idp.SigRSASHA384: "rsa-sha384", idp.SigRSASHA512: "rsa-sha512",
	idp.SigECDSASHA1: "ecdsa-sha1", idp.SigECDSASHA256: "ecdsa-sha256", idp.SigECDSASHA384: "ecdsa-sha384", idp.SigECDSASHA512: "ecdsa-sha512"}
var c14nTok = map[string]string{idp.C14NExc: "exc", idp.C14NExcCom: "exccom", idp.C14N11: "c14n11", idp.C14N11Com: "c14n11com", idp.C14N10: "c14n10", idp.C14N10Com: "c14n10com"}

func canonObj(tok string) dsig.Canonicalizer {
	switch tok {
	case "exc":
		return dsig.MakeC14N10ExclusiveCanonicalizerWithPrefixList("")
	case "exccom":
		return dsig.MakeC14N10ExclusiveWithCommentsCanonicalizerWithPrefixList("")
	case "c14n11":
		return dsig.MakeC14N11Canonicalizer()
	case "c14n11com":
		return dsig.MakeC14N11WithCommentsCanonicalizer()
	case "c14n10":
		return dsig.MakeC14N10RecCanonicalizer()
	case "c14n10com":
		return dsig.MakeC14N10WithCommentsCanonicalizer()
	}
	return nil
}

// strFor draws a configuration string of the given class; "plain" is benign.
func strFor(class string, rng *rand.Rand, base string) string {
	switch class {
	case "plain":
		return base
	case "markup":
		return base + GenXMLString(rng, 1, 12)
	case "ws":
		return GenXMLString(rng, 2, 8) + base + GenXMLString(rng, 2, 8)
	case "nonascii":
		return base + GenXMLString(rng, 3, 10)
	case "srclit":
		// a value that is itself one of the string literals of the library source under check (a constant the code
		// compares against, a default, a URN it knows)
		lits := SourceLiterals()
		var pool []string
		for _, l := range lits {
			if strings.HasPrefix(l, "urn:") || strings.HasPrefix(l, "http") {
				pool = append(pool, l)
			}
		}
		if len(pool) == 0 {
			pool = lits
		}
		return pool[rng.Intn(len(pool))]
	case "blank":
		// set, but nothing to see: white space only (distinct per setting, so that values cannot be confused)
		n := 0
		for _, c := range base {
			n += int(c)
		}
		return []string{" ", "\t", "  ", " \n", "\n ", "\t "}[n%6] + strings.Repeat(" ", n%3)
	default:
		return base + GenXMLString(rng, 5, 10) + GenXMLString(rng, 4, 8)
	}
}

type oStrings struct {
	ACS, SPIssuer, IdpIssuer, NameIdFormat, Comparison, NameID, SessionIndex, Status, ReqID, SSO, SLO, SPSLO string
	Contexts                                                                                                 []string
}

func stringsFor(class string, rng *rand.Rand, rac string) *oStrings {
	// Values that end up in XML attributes never contain the sequence "]]>" here: the output would
	// still be well-formed, but no Go XML parser (etree included) can read it back, so the
	// signature over it could not be analysed by this harness (tooling limit, see DESIGN.md).
	at := func(base string) string { return strings.ReplaceAll(strFor(class, rng, base), "]]>", "]]") }
	s := &oStrings{
		ACS: at(world.ACS), SPIssuer: strFor(class, rng, world.SPIssuer), IdpIssuer: strFor(class, rng, world.IdpIssuer),
		NameIdFormat: at(saml2.NameIdFormatPersistent), Comparison: at("exact"),
		NameID: strFor(class, rng, "alice@example.com"), SessionIndex: strFor(class, rng, "sess-1"), Status: at(saml2.StatusCodeSuccess),
		ReqID: at("_req-9"), SSO: at(world.IdpSSO), SLO: at(world.IdpSLO), SPSLO: at(world.SLO),
	}
	if s.SPIssuer == s.IdpIssuer { // (the projection tells the two issuers apart by value)
		s.IdpIssuer += "/idp"
	}
	n := map[string]int{"nil": 0, "zero": 0, "one": 1, "two": 2}[rac]
	for i := 0; i < n; i++ {
		s.Contexts = append(s.Contexts, strFor(class, rng, saml2.AuthnContextPasswordProtectedTransport+strconv.Itoa(i)))
	}
	return s
}

func buildSP(in *oInput, st *oStrings, clock time.Time) *saml2.SAMLServiceProvider {
	ks := outboundKeys()
	sp := &saml2.SAMLServiceProvider{
		IdentityProviderSSOURL: st.SSO, IdentityProviderSLOURL: st.SLO, IdentityProviderIssuer: st.IdpIssuer,
		AssertionConsumerServiceURL: st.ACS, ServiceProviderSLOURL: st.SPSLO, AudienceURI: world.Audience,
		SignAuthnRequests: in.SignReq, ForceAuthn: in.ForceAuthn, IsPassive: in.IsPassive, SkipSignatureValidation: in.Skip,
		IDPCertificateStore: &dsig.MemoryX509CertificateStore{Roots: []*x509.Certificate{world.Get().IdpA.Cert}},
		Clock:               dsig.NewFakeClockAt(clock),
	}
	if in.SPIssuer {
		sp.ServiceProviderIssuer = st.SPIssuer
	}
	// settings that describe the IdP's side or other features and must have no effect on what is built here
	if len(st.ACS)%2 == 1 {
		sp.IdentityProviderSLOBinding = saml2.BindingHttpRedirect
		sp.IdentityProviderSSOBinding = saml2.BindingHttpRedirect
		sp.AllowMissingAttributes = true
		sp.ValidateEncryptionCert = true
		sp.MaximumDecompressedBodySize = 4096
	}
	if in.NameIdFormat {
		sp.NameIdFormat = st.NameIdFormat
	}
	if in.Rac != "nil" {
		sp.RequestedAuthnContext = &saml2.RequestedAuthnContext{Comparison: st.Comparison, Contexts: st.Contexts}
	}
	ec := in.Keytype == "ec"
	tlsStore := func(k *idp.KeyPair) dsig.X509KeyStore {
		return dsig.TLSCertKeyStore{Certificate: [][]byte{k.DER}, PrivateKey: k.Key}
	}
	setter := func(name string) *saml2.KeyStore {
		k := ks[name]
		return &saml2.KeyStore{Signer: k.Key, Cert: k.DER}
	}
	signerIsSignSetter := in.SignKey == "setter" || in.SignKey == "both"
	signerIsEncSetter := !signerIsSignSetter && in.SignKey == "none" && (in.EncKey == "setter" || in.EncKey == "both")
	if in.EncKey == "field" || in.EncKey == "both" {
		sp.SPKeyStore = tlsStore(ks["encField"])
	}
	if in.EncKey == "setter" || in.EncKey == "both" {
		n := "encSetter"
		if ec && signerIsEncSetter {
			n = "encSetterEC"
		}
		sp.SetSPKeyStore(setter(n))
	}
	if in.SignKey == "field" || in.SignKey == "both" {
		sp.SPSigningKeyStore = tlsStore(ks["signField"])
	}
	if signerIsSignSetter {
		n := "signSetter"
		if ec {
			n = "signSetterEC"
		}
		sp.SetSPSigningKeyStore(setter(n))
	}
	for uri, tok := range sigTok {
		if tok == in.Alg {
			sp.SignAuthnRequestsAlgorithm = uri
		}
	}
	if in.C14n != "unset" {
		sp.SignAuthnRequestsCanonicalizer = canonObj(in.C14n)
	}
	return sp
}

// goProject is a second, Go-native projection (encoding/xml tokens) into the same node shape.
func goProject(data []byte) (*pyproj.Node, error) {
	d := xml.NewDecoder(bytes.NewReader(data))
	var stack []*pyproj.Node
	var root *pyproj.Node
	for {
		tok, err := d.Token()
		if err == io.EOF {
			break
		}
		if err != nil {
			return nil, err
		}
		switch t := tok.(type) {
		case xml.StartElement:
			n := &pyproj.Node{NS: t.Name.Space, Name: t.Name.Local}
			for _, a := range t.Attr {
				if a.Name.Space == "xmlns" || (a.Name.Space == "" && a.Name.Local == "xmlns") {
					continue
				}
				n.Attrs = append(n.Attrs, [3]string{a.Name.Space, a.Name.Local, a.Value})
			}
			if len(stack) > 0 {
				p := stack[len(stack)-1]
				p.Children = append(p.Children, n)
			} else {
				root = n
			}
			stack = append(stack, n)
		case xml.EndElement:
			stack = stack[:len(stack)-1]
		case xml.CharData:
			if len(stack) > 0 {
				stack[len(stack)-1].Text += string(t)
			}
		}
	}
	if root == nil {
		return nil, fmt.Errorf("no root")
	}
	return root, nil
}

func sameTree(a, b *pyproj.Node) bool {
	if a.NS != b.NS || a.Name != b.Name || a.Text != b.Text || len(a.Children) != len(b.Children) || len(a.Attrs) != len(b.Attrs) {
		return false
	}
	am := map[string]string{}
	for _, x := range a.Attrs {
		am[x[0]+"|"+x[1]] = x[2]
	}
	for _, x := range b.Attrs {
		if v, ok := am[x[0]+"|"+x[1]]; !ok || v != x[2] {
			return false
		}
	}
	for i := range a.Children {
		if !sameTree(a.Children[i], b.Children[i]) {
			return false
		}
	}
	return true
}

func skeleton(n *pyproj.Node, sb *strings.Builder) {
	sb.WriteString("<" + n.NS + "|" + n.Name)
	var names []string
	for _, a := range n.Attrs {
		names = append(names, a[0]+"|"+a[1])
	}
	// attribute order is not structure
	for i := 0; i < len(names); i++ {
		for j := i + 1; j < len(names); j++ {
			if names[j] < names[i] {
				names[i], names[j] = names[j], names[i]
			}
		}
	}
	sb.WriteString(" " + strings.Join(names, ","))
	// the Signature subtree is judged by C13, not part of the value-independent skeleton
	if n.Name == "Signature" {
		sb.WriteString("/>")
		return
	}
	sb.WriteString(">")
	for _, c := range n.Children {
		skeleton(c, sb)
	}
	sb.WriteString("</>")
}

type builtMsg struct {
	doc  []byte
	err  error
	root *pyproj.Node
}

func buildMessage(sp *saml2.SAMLServiceProvider, in *oInput, st *oStrings) (out builtMsg) {
	defer func() {
		if r := recover(); r != nil {
			out.err = fmt.Errorf("panic: %v", r)
		}
	}()
	var doc *etree.Document
	var err error
	switch in.Kind {
	case "authn":
		if in.Via == "doc" && in.SignReq {
			// the string form: BuildAuthRequest() is BuildAuthRequestDocument() + WriteToString()
			s, serr := sp.BuildAuthRequest()
			return builtMsg{doc: []byte(s), err: serr}
		}
		doc, err = sp.BuildAuthRequestDocument()
	case "logoutReq":
		doc, err = sp.BuildLogoutRequestDocument(st.NameID, st.SessionIndex)
	case "logoutResp":
		doc, err = sp.BuildLogoutResponseDocument(st.Status, st.ReqID)
	}
	if err != nil {
		return builtMsg{err: err}
	}
	if in.Via == "post" {
		// what the IdP receives through the POST binding: the form field, base64-decoded
		var body []byte
		switch in.Kind {
		case "authn":
			body, err = sp.BuildAuthBodyPostFromDocument("rs", doc)
		case "logoutReq":
			body, err = sp.BuildLogoutBodyPostFromDocument("rs", doc)
		default:
			body, err = sp.BuildLogoutResponseBodyPostFromDocument("rs", doc)
		}
		if err != nil {
			return builtMsg{err: err}
		}
		h, herr := pyproj.ParseHTML(body)
		if herr != nil {
			return builtMsg{err: herr}
		}
		for _, t := range h.Tags {
			if t.Name != "input" {
				continue
			}
			name, val := "", ""
			for _, a := range t.Attrs {
				if a[0] == "name" {
					name = a[1]
				}
				if a[0] == "value" {
					val = a[1]
				}
			}
			if name == "SAMLRequest" || name == "SAMLResponse" {
				b, derr := base64.StdEncoding.DecodeString(val)
				return builtMsg{doc: b, err: derr}
			}
		}
		return builtMsg{err: fmt.Errorf("no message field in the POST form")}
	}
	b, err := doc.WriteToBytes()
	return builtMsg{doc: b, err: err}
}

// analyseSignature inspects the enveloped signature of a serialised message on its own terms:
// SignedInfo canonicalised as declared, SignatureValue checked with bare crypto against every
// candidate key, digest recomputed over the root minus the signature.
func analyseSignature(doc []byte, o *oObs) {
	d := etree.NewDocument()
	if err := d.ReadFromBytes(doc); err != nil {
		o.Note += " etree:" + err.Error()
		return
	}
	root := d.Root()
	var sigs []*etree.Element
	var walk func(e *etree.Element)
	walk = func(e *etree.Element) {
		if e.Tag == "Signature" && e.NamespaceURI() == idp.NSDsig {
			sigs = append(sigs, e)
		}
		for _, c := range e.ChildElements() {
			walk(c)
		}
	}
	walk(root)
	o.Sigcount = len(sigs)
	if len(sigs) != 1 {
		return
	}
	sig := sigs[0]
	kids := root.ChildElements()
	for i, k := range kids {
		if k == sig {
			o.SigposOK = i >= 1 && kids[i-1].Tag == "Issuer" && i == 1
		}
	}
	si := sig.FindElement("./SignedInfo")
	if si == nil {
		return
	}
	attr := func(path string) string {
		if e := sig.FindElement(path); e != nil {
			return e.SelectAttrValue("Algorithm", "")
		}
		return ""
	}
	sigAlg := attr("./SignedInfo/SignatureMethod")
	o.Alg = sigTok[sigAlg]
	c14nAlg := attr("./SignedInfo/CanonicalizationMethod")
	o.C14n = c14nTok[c14nAlg]
	if o.Alg == "" {
		o.Alg = "unknown:" + sigAlg
	}
	if o.C14n == "" {
		o.C14n = "unknown:" + c14nAlg
	}
	// embedded certificate
	if xc := sig.FindElement("./KeyInfo/X509Data/X509Certificate"); xc != nil {
		if der, err := base64.StdEncoding.DecodeString(strings.Join(strings.Fields(xc.Text()), "")); err == nil {
			o.Embedded = keyName(der)
		}
	} else {
		o.Embedded = "none"
	}
	// SignatureValue over canonical SignedInfo, with every candidate public key
	ctx, err := etreeutils.NSBuildParentContext(si)
	if err != nil {
		return
	}
	det, err := etreeutils.NSDetatch(ctx, si)
	if err != nil {
		return
	}
	var sic dsig.Canonicalizer
	switch c14nAlg {
	case idp.C14NExc:
		sic = dsig.MakeC14N10ExclusiveCanonicalizerWithPrefixList("")
	case idp.C14NExcCom:
		sic = dsig.MakeC14N10ExclusiveWithCommentsCanonicalizerWithPrefixList("")
	case idp.C14N11, idp.C14N10:
		sic = dsig.MakeC14N11Canonicalizer()
	default:
		sic = dsig.MakeC14N11WithCommentsCanonicalizer()
	}
	sibytes, err := sic.Canonicalize(det)
	if err != nil {
		return
	}
	sv := sig.FindElement("./SignatureValue")
	if sv == nil {
		return
	}
	raw, err := base64.StdEncoding.DecodeString(strings.Join(strings.Fields(sv.Text()), ""))
	if err != nil {
		return
	}
	o.VerifiedBy = "none"
	for n, k := range outboundKeys() {
		if idp.VerifyBytes(k.Key.Public().(crypto.PublicKey), sigAlg, sibytes, raw) == nil {
			o.VerifiedBy = strings.TrimSuffix(n, "EC")
		}
	}
	// digest over the root with the signature removed, canonicalised by the declared transform
	ref := sig.FindElement("./SignedInfo/Reference")
	if ref == nil {
		return
	}
	idAttr := root.SelectAttrValue("ID", "")
	if uri := ref.SelectAttrValue("URI", "?"); uri != "#"+idAttr {
		o.Note += " ref-uri=" + uri
		return
	}
	tAlg := ""
	for _, t := range ref.FindElements("./Transforms/Transform") {
		if a := t.SelectAttrValue("Algorithm", ""); a != idp.TransEnveloped {
			tAlg = a
		}
	}
	cp := root.Copy()
	for _, c := range cp.ChildElements() {
		if c.Tag == "Signature" {
			cp.RemoveChild(c)
		}
	}
	canon, err := idp.CanonicalInContext(cp, tAlg, "")
	if err != nil {
		o.Note += " canon:" + err.Error()
		return
	}
	dAlg := ""
	if e := ref.FindElement("./DigestMethod"); e != nil {
		dAlg = e.SelectAttrValue("Algorithm", "")
	}
	want := ""
	if e := ref.FindElement("./DigestValue"); e != nil {
		want = strings.Join(strings.Fields(e.Text()), "")
	}
	got, err := idp.DigestB64(dAlg, canon)
	o.DigestOK = err == nil && got == want
	// and the library's own validator with the reported certificate as the only trusted one
}

func (Outbound) Run(c *orch.Case) *orch.Outcome {
	var in oInput
	if json.Unmarshal(c.Input, &in) != nil {
		orch.Fatal("outbound: bad case")
	}
	rng := rand.New(rand.NewSource(c.Seed))
	zone := map[string]*time.Location{"utc": time.UTC, "+0530": time.FixedZone("", 19800), "-0800": time.FixedZone("", -28800), "dst": dstZone()}[in.Zone]
	clock := world.Now.Add(time.Duration(rng.Intn(900)) * time.Millisecond).In(zone)
	if in.Zone == "dst" {
		// a zone that observes daylight saving, a few days before a transition (2031-03-09 and 2031-11-02 in New York)
		base := []time.Time{time.Date(2031, 3, 5, 12, 0, 0, 0, zone), time.Date(2031, 10, 29, 12, 0, 0, 0, zone), time.Date(2031, 3, 9, 1, 30, 0, 0, zone)}[rng.Intn(3)]
		clock = base.Add(time.Duration(rng.Intn(900)) * time.Millisecond)
	}
	st := stringsFor(in.Strclass, rng, in.Rac)
	sp := buildSP(&in, st, clock)
	o := &oObs{Children: []string{}}
	labels := []string{"strclass=" + in.Strclass, "sub=" + in.Sub}
	replay := map[string]any{"strings": st, "clock": clock.Format(time.RFC3339Nano)}

	if in.Sub == "meta" {
		runMeta(&in, sp, st, clock, o)
		return &orch.Outcome{Obs: o, Labels: labels, Replay: replay}
	}

	m := buildMessage(sp, &in, st)
	if m.err != nil {
		o.Note = "build: " + m.err.Error()
		return &orch.Outcome{Obs: o, Labels: labels, Replay: replay}
	}
	o.Built = true
	replay["document"] = string(m.doc)
	ex, perr, err := pyproj.XML(m.doc)
	if err != nil {
		orch.Fatal("expat worker: %v", err)
	}
	if perr != "" {
		o.Note += fmt.Sprintf(" not well-formed: expat=%q", perr)
		return &orch.Outcome{Obs: o, Labels: labels, Replay: replay}
	}
	// expat (conforming) is the judge of well-formedness; encoding/xml is a cross-check where it can
	// read the document at all (it refuses a literal "]]>" inside attribute values, which XML allows)
	gp, gerr := goProject(m.doc)
	o.Wellformed = gerr != nil || sameTree(ex, gp)
	if !o.Wellformed {
		o.Note += " expat and encoding/xml disagree on the document"
		labels = append(labels, "parsers-disagree")
	}
	root := ex
	o.Rootname, o.RootnsOK = root.Name, root.NS == idp.NSProtocol
	for _, ch := range root.Children {
		o.Children = append(o.Children, ch.Name)
	}
	o.Version, _ = root.Attr("Version")
	if ii, ok := root.Attr("IssueInstant"); ok {
		t, err := time.Parse(time.RFC3339Nano, ii)
		d := clock.Sub(t)
		o.InstantOK = err == nil && d >= 0 && d < time.Second && (strings.HasSuffix(ii, "Z") || strings.HasSuffix(ii, "+00:00"))
	}
	dest, _ := root.Attr("Destination")
	o.DestOK = dest == map[string]string{"authn": st.SSO, "logoutReq": st.SLO, "logoutResp": st.SLO}[in.Kind]
	if is := root.Child("Issuer"); is != nil && is.NS == idp.NSAssertion {
		switch is.Text {
		case st.SPIssuer:
			o.Issuer = "sp"
		case st.IdpIssuer:
			o.Issuer = "idp"
		default:
			o.Issuer = "other"
		}
	}
	// every configured or caller-supplied value is recovered exactly
	vals := true
	chk := func(ok bool, what string) {
		if !ok {
			vals = false
			o.Note += " value:" + what
		}
	}
	av := func(n *pyproj.Node, name string) string {
		if n == nil {
			return "<absent-node>"
		}
		v, ok := n.Attr(name)
		if !ok {
			return "<absent>"
		}
		return v
	}
	idv, _ := root.Attr("ID")
	chk(len(idv) == 37 && idv[0] == '_', "ID")
	switch in.Kind {
	case "authn":
		chk(av(root, "AssertionConsumerServiceURL") == st.ACS, "ACS")
		chk(av(root, "ProtocolBinding") == saml2.BindingHttpPost, "ProtocolBinding")
		chk((av(root, "ForceAuthn") == "true") == in.ForceAuthn && (in.ForceAuthn || av(root, "ForceAuthn") == "<absent>"), "ForceAuthn")
		chk((av(root, "IsPassive") == "true") == in.IsPassive && (in.IsPassive || av(root, "IsPassive") == "<absent>"), "IsPassive")
		np := root.Child("NameIDPolicy")
		if in.NameIdFormat {
			chk(av(np, "Format") == st.NameIdFormat, "NameIDPolicy Format")
		} else {
			chk(av(np, "Format") == "<absent>", "NameIDPolicy Format absent")
		}
		if in.Rac != "nil" {
			rc := root.Child("RequestedAuthnContext")
			chk(av(rc, "Comparison") == st.Comparison, "Comparison")
			if rc != nil {
				chk(len(rc.Children) == len(st.Contexts), "context count")
				for i, cc := range rc.Children {
					chk(i < len(st.Contexts) && cc.Name == "AuthnContextClassRef" && cc.NS == idp.NSAssertion && cc.Text == st.Contexts[i], "context")
				}
			}
		}
	case "logoutReq":
		n := root.Child("NameID")
		chk(n != nil && n.Text == st.NameID && n.NS == idp.NSAssertion, "NameID")
		if in.NameIdFormat {
			chk(av(n, "Format") == st.NameIdFormat, "NameID Format")
		}
		s := root.Child("SessionIndex")
		chk(s != nil && s.Text == st.SessionIndex && s.NS == idp.NSProtocol, "SessionIndex")
	case "logoutResp":
		chk(av(root, "InResponseTo") == st.ReqID, "InResponseTo")
		s := root.Child("Status")
		var sc *pyproj.Node
		if s != nil {
			sc = s.Child("StatusCode")
		}
		chk(av(sc, "Value") == st.Status, "StatusCode")
	}
	o.ValuesOK = vals
	// no value may change the structure: same skeleton as with benign strings
	in2 := in
	in2.Strclass = "plain"
	st2 := stringsFor("plain", rand.New(rand.NewSource(1)), in.Rac)
	m2 := buildMessage(buildSP(&in2, st2, clock), &in2, st2)
	if m2.err == nil {
		if ex2, perr2, _ := pyproj.XML(m2.doc); perr2 == "" && ex2 != nil {
			var a, b strings.Builder
			skeleton(ex, &a)
			skeleton(ex2, &b)
			o.SkeletonOK = a.String() == b.String()
		}
	}
	// signature
	signed := in.Kind != "authn" || in.SignReq
	if signed {
		analyseSignature(m.doc, o)
		if rc, err := sp.GetSigningCertBytes(); err == nil {
			o.Reported = keyName(rc)
		} else {
			o.Reported = "error"
		}
		o.Metasign = metaSigner(sp)
	}
	for _, n := range []string{"ws", "tricky"} {
		if in.Strclass == n && (!o.ValuesOK || !o.DigestOK && signed || !o.Wellformed) {
			labels = append(labels, "value-has-raw-whitespace")
		}
	}
	return &orch.Outcome{Obs: o, Labels: labels, Replay: replay}
}

// metaSigner names the signing certificate published in Metadata() ("na" when metadata cannot be built).
func metaSigner(sp *saml2.SAMLServiceProvider) (name string) {
	defer func() {
		if r := recover(); r != nil {
			name = "panic"
		}
	}()
	// both metadata entry points must publish the same signing certificate
	of := func(md *types.EntityDescriptor, err error) string {
		if err != nil || md == nil || md.SPSSODescriptor == nil {
			return "na"
		}
		for _, kd := range md.SPSSODescriptor.KeyDescriptors {
			if kd.Use == "signing" && len(kd.KeyInfo.X509Data.X509Certificates) > 0 {
				der, _ := base64.StdEncoding.DecodeString(kd.KeyInfo.X509Data.X509Certificates[0].Data)
				return keyName(der)
			}
		}
		return "none"
	}
	a, b := of(sp.Metadata()), of(sp.MetadataWithSLO(24))
	if a != b {
		return "Metadata:" + a + "/MetadataWithSLO:" + b
	}
	return a
}

func runMeta(in *oInput, sp *saml2.SAMLServiceProvider, st *oStrings, clock time.Time, o *oObs) {
	defer func() {
		if r := recover(); r != nil {
			o.Note += fmt.Sprint(" panic: ", r)
		}
	}()
	var md *types.EntityDescriptor
	var err error
	hours, _ := strconv.ParseInt(in.Hours, 10, 64)
	if in.Variant == "slo" {
		md, err = sp.MetadataWithSLO(hours)
	} else {
		md, err = sp.Metadata()
	}
	if err != nil || md == nil {
		o.Note = fmt.Sprint("metadata: ", err)
		return
	}
	o.Built = true
	out, err := xml.Marshal(md)
	if err != nil {
		o.Note = "marshal: " + err.Error()
		return
	}
	ex, perr, perr2 := pyproj.XML(out)
	if perr2 != nil {
		orch.Fatal("expat worker: %v", perr2)
	}
	if perr != "" {
		o.Note = "expat: " + perr
		return
	}
	gp, gerr := goProject(out)
	o.Wellformed = gerr != nil || sameTree(ex, gp)
	mdNS := "urn:oasis:names:tc:SAML:2.0:metadata"
	eid, _ := ex.Attr("entityID")
	want := ""
	if in.SPIssuer {
		want = st.SPIssuer
	}
	o.EntityOK = ex.Name == "EntityDescriptor" && ex.NS == mdNS && eid == want
	d := ex.Child("SPSSODescriptor")
	if d == nil {
		o.Note = "no SPSSODescriptor"
		return
	}
	ars, _ := d.Attr("AuthnRequestsSigned")
	was, _ := d.Attr("WantAssertionsSigned")
	o.FlagsOK = ars == strconv.FormatBool(in.SignReq) && was == strconv.FormatBool(!in.Skip)
	o.Signcert, o.Enccert = "none", "none"
	o.MethodsOK = false
	var listed []string
	o.SloOK = in.Variant != "slo"
	for _, ch := range d.Children {
		switch ch.Name {
		case "KeyDescriptor":
			use, _ := ch.Attr("use")
			der := []byte{}
			if ki := ch.Child("KeyInfo"); ki != nil {
				if xd := ki.Child("X509Data"); xd != nil {
					if xc := xd.Child("X509Certificate"); xc != nil {
						der, _ = base64.StdEncoding.DecodeString(xc.Text)
					}
				}
			}
			if use == "signing" {
				o.Signcert = keyName(der)
			}
			if use == "encryption" {
				o.Enccert = keyName(der)
				got := map[string]bool{}
				for _, em := range ch.Children {
					if em.Name == "EncryptionMethod" {
						a, _ := em.Attr("Algorithm")
						got[a] = true
					}
				}
				ok := len(got) > 0
				for a := range got {
					known := false
					for _, k := range idp.DataAlgs {
						if k == a {
							known = true
						}
					}
					ok = ok && known // only methods the SP can decrypt (each round-trips: C11)
				}
				o.MethodsOK = ok
				for a := range got {
					listed = append(listed, a)
				}
			}
		case "AssertionConsumerService":
			b, _ := ch.Attr("Binding")
			l, _ := ch.Attr("Location")
			o.AcsOK = b == saml2.BindingHttpPost && l == st.ACS
		case "SingleLogoutService":
			b, _ := ch.Attr("Binding")
			l, _ := ch.Attr("Location")
			o.SloOK = in.Variant == "slo" && b == saml2.BindingHttpPost && l == st.SPSLO
		}
	}
	// validity
	vu, _ := ex.Attr("validUntil")
	t, terr := time.Parse(time.RFC3339Nano, vu)
	wantValid := clock.Add(7 * 24 * time.Hour)
	if in.Variant == "slo" && hours > 0 {
		wantValid = clock.Add(time.Duration(hours) * time.Hour)
	}
	o.ValidOK = terr == nil && t.Equal(wantValid)
	if !o.ValidOK {
		o.Note += fmt.Sprintf(" validUntil=%s want %s", vu, wantValid.UTC().Format(time.RFC3339Nano))
	}
	// marshal / unmarshal round trip: parsing the output back and marshalling again is stable,
	// and the parsed value carries the same data (compared through expat projections)
	var back types.EntityDescriptor
	if err := xml.Unmarshal(out, &back); err == nil {
		out2, err2 := xml.Marshal(&back)
		ex2, perr3, _ := pyproj.XML(out2)
		o.RoundtripOK = err2 == nil && perr3 == "" && ex2 != nil && sameTree(ex, ex2) && back.ValidUntil.Equal(md.ValidUntil) && back.EntityID == md.EntityID
		if !o.RoundtripOK {
			o.Note += " roundtrip differs"
		}
	}
	// the key that actually signs
	in3 := *in
	in3.Kind = "logoutReq"
	if m := buildMessage(sp, &in3, st); m.err == nil {
		tmp := &oObs{}
		analyseSignature(m.doc, tmp)
		o.MessageSigner = tmp.VerifiedBy
		if tmp.VerifiedBy == "" {
			o.Note += " message-signer:" + tmp.Note
		}
	} else {
		o.MessageSigner = "error:" + m.err.Error()
	}
	// the key that actually decrypts: encrypt to the published certificate with EVERY method the metadata lists (and both
	// families of key transport), validate through the SP
	o.Decrypts = len(listed) > 0
	sort.Strings(listed)
	pick := int(clock.UnixNano()/1e6+int64(len(st.ACS))) % 4 // every fourth case tries all combinations, the others one
	for i, alg := range listed {
		for j, kt := range []string{idp.KtOAEP, idp.KtPKCS1} {
			if pick != 0 && (i+2*j)%len(listed) != pick%len(listed) {
				continue
			}
			if known(alg) && !metaDecrypts(sp, o.Enccert, alg, kt) {
				o.Decrypts = false
				o.Note += " cannot decrypt " + alg + " / " + kt
			}
		}
	}
}

func known(alg string) bool {
	for _, k := range idp.DataAlgs {
		if k == alg {
			return true
		}
	}
	return false
}

func metaDecrypts(sp *saml2.SAMLServiceProvider, encName, alg, kt string) bool {
	kp, ok := outboundKeys()[encName]
	if !ok {
		return false
	}
	rsaPub, isRSA := kp.Cert.PublicKey.(*rsa.PublicKey)
	if !isRSA {
		return false
	}
	w := world.Get()
	b := idp.NewBuilder(idp.Layout{}, 5)
	spec := world.Content("GA1")
	spec.Subject.Conf.Data.Recipient = idp.S(sp.AssertionConsumerServiceURL)
	ae := b.AssertionEl(spec, true)
	mustSign(ae, idp.DefaultSig(w.IdpA.Key, w.IdpA.DER))
	ee, err := b.EncryptedAssertion(idp.Plain(ae), idp.EncOpts{DataAlg: alg, KeyTransport: kt, Pub: rsaPub, Recipient: kp.DER})
	if err != nil {
		return false
	}
	rs := genuineRoot()
	rs.Destination = idp.S(sp.AssertionConsumerServiceURL)
	rs.Issuer = idp.S(sp.IdentityProviderIssuer)
	root := b.ResponseEl(rs)
	root.AddChild(ee)
	sp2 := sp // private to this case: safe to adjust
	sp2.SkipSignatureValidation = false
	sp2.Clock = dsig.NewFakeClockAt(world.Now)
	// issuer strings of this family may be hostile; the assertion's issuer must match the configured one
	r, err := sp2.ValidateEncodedResponse(idp.Encode(idp.Plain(root), false))
	if err != nil {
		// a typed profile error comes after successful decryption and still proves that the key decrypts
		return projectErr(err).Cls == "typed"
	}
	return r != nil
}

// Corrupt claims a different verifying key for a signed message, which C13 must flag.
func (Outbound) Corrupt(c *orch.Case, o *orch.Outcome) (any, string, bool) {
	ob := o.Obs.(*oObs)
	if ob.VerifiedBy == "" || ob.VerifiedBy == "none" {
		return nil, "", false
	}
	cp := *ob
	cp.VerifiedBy = "unknown"
	return &cp, "C13", true
}
