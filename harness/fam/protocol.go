package fam

import (
	"bytes"
	"encoding/json"
	"fmt"
	"math/rand"
	"sort"
	"strings"

	"github.com/beevik/etree"
	saml2 "github.com/russellhaering/gosaml2"
	dsig "github.com/russellhaering/goxmldsig"

	"verifharness/idp"
	"verifharness/orch"
	"verifharness/pyproj"
	"verifharness/world"
)

// Protocol executes behaviours of spec/Protocol.tla with the real library as the service provider.
type Protocol struct{}

type prInput struct {
	Hist [][]json.RawMessage `json:"hist"`
}
type prState struct {
	Pending  []int    `json:"pending"`
	Sessions [][2]any `json:"sessions"`
	LPending [][2]any `json:"lpending"`
	Answered []int    `json:"answered"`
}
type prObs struct {
	Events          [][]any   `json:"events"`
	States          []prState `json:"states"`
	IdpSideOK       bool      `json:"idp_side_ok"`
	ValuesRoundtrip bool      `json:"values_roundtrip"`
	Note            string    `json:"note"`
}

func (Protocol) Name() string { return "Protocol" }
func (Protocol) MC(tier string) (string, string) {
	return "MC_Protocol.tla", "MC_Protocol_" + tier + ".cfg"
}
func (Protocol) Trace() (string, string) { return "Trace_Protocol.tla", "Trace_Protocol.cfg" }
func (Protocol) Cap(tier string) int {
	if tier == "thorough" {
		return 30000
	}
	return 2500
}
func (Protocol) Layouts(tier string) int         { return 1 }
func (Protocol) Extra(string, int64) []orch.Case { return nil }

// Keep: behaviours that reach the logout exchange or consume the same Response twice are always replayed.
func (Protocol) Keep(c *orch.Case) bool {
	return (bytes.Contains(c.Input, []byte(`"SPConsumeLogout"`)) && bytes.Contains(c.Input, []byte("IdPLogoutRespond"))) ||
		(bytes.Contains(c.Input, []byte("SPConsumeLogoutRequest")) && bytes.Contains(c.Input, []byte(`"SPConsume"`)))
}

type prSession struct {
	subj, nameID, sessionIndex string
	via                        int
}

func (Protocol) Run(c *orch.Case) *orch.Outcome {
	var in prInput
	if json.Unmarshal(c.Input, &in) != nil {
		orch.Fatal("protocol: bad case")
	}
	w := world.Get()
	rng := rand.New(rand.NewSource(c.Seed))
	ks := outboundKeys()
	sp := w.NewSP()
	sp.SignAuthnRequests = true
	sp.SPKeyStore = dsig.TLSCertKeyStore{Certificate: [][]byte{ks["encField"].DER}, PrivateKey: ks["encField"].Key}
	o := &prObs{IdpSideOK: true, ValuesRoundtrip: true, Events: [][]any{}, States: []prState{}}

	realID := map[int]string{}  // model request number -> real ID (AuthnRequest or LogoutRequest)
	modelOf := map[string]int{} // real ID -> model number
	acsOf := map[int]string{}   // what the IdP read in the request
	pending := map[int]bool{}
	lpending := map[int]string{}
	var sessions []prSession
	net := map[string]string{} // message key -> encoded
	nreq := 0
	issued := map[string][2]string{} // subject/request -> NameID, SessionIndex the IdP issued
	idpReq := map[string]int{}       // real ID of a LogoutRequest the IdP (or attacker) originated -> model number
	answered := map[int]bool{}

	strOf := func(r json.RawMessage) string { var s string; json.Unmarshal(r, &s); return s }
	intOf := func(r json.RawMessage) int { var i int; json.Unmarshal(r, &i); return i }
	fail := func(f string, a ...any) {
		if o.Note == "" {
			o.Note = fmt.Sprintf(f, a...)
		}
	}
	// the IdP's view of a message the SP produced: parsed by expat, signature checked independently
	idpReads := func(doc []byte, wantRoot string) *pyproj.Node {
		root, perr, err := pyproj.XML(doc)
		if err != nil {
			orch.Fatal("expat worker: %v", err)
		}
		if perr != "" || root == nil || root.Name != wantRoot {
			o.IdpSideOK = false
			fail("IdP cannot read %s: %s", wantRoot, perr)
			return nil
		}
		so := &oObs{}
		analyseSignature(doc, so)
		if so.Sigcount != 1 || so.VerifiedBy != "encField" || !so.DigestOK || !so.SigposOK {
			o.IdpSideOK = false
			fail("IdP cannot verify %s: %+v", wantRoot, *so)
		}
		return root
	}
	for _, e := range in.Hist {
		kind := strOf(e[0])
		ev := []any{kind}
		switch kind {
		case "SPStart":
			nreq++
			ev = append(ev, nreq, "-")
			doc, err := sp.BuildAuthRequestDocument()
			if err != nil {
				fail("build: %v", err)
				break
			}
			b, _ := doc.WriteToBytes()
			if root := idpReads(b, "AuthnRequest"); root != nil {
				id, _ := root.Attr("ID")
				acs, _ := root.Attr("AssertionConsumerServiceURL")
				realID[nreq], modelOf[id], acsOf[nreq] = id, nreq, acs
				pending[nreq] = true
			}
		case "IdPRespond", "AttForge":
			i, s := intOf(e[1]), strOf(e[2])
			ev = append(ev, i, s)
			lay := layoutFor(rng, true)
			b := idp.NewBuilder(lay, c.Seed+int64(len(net)))
			rs := genuineRoot()
			rs.ID = fmt.Sprintf("_resp-%d-%d", i, len(net))
			rs.InResponseTo = idp.S(realID[i])
			rs.Destination = idp.S(acsOf[i])
			spec := world.Content("GA1")
			spec.ID = fmt.Sprintf("_as-%d-%d", i, len(net))
			nameID := s + "@example.com"
			sidx := fmt.Sprintf("sess %s/%d <&>", s, i) // a session index with characters that need escaping
			spec.Subject.NameID = idp.S(nameID)
			spec.Authn.SessionIndex = idp.S(sidx)
			spec.Subject.Conf.Data.InResponseTo = idp.S(realID[i])
			spec.Subject.Conf.Data.Recipient = idp.S(acsOf[i])
			root := b.ResponseEl(rs)
			a := b.AssertionEl(spec, false)
			root.AddChild(a)
			b.Decorate(root)
			key, by := w.IdpA, "idp"
			if kind == "AttForge" {
				key, by = w.Att, "att"
			}
			so := idp.DefaultSig(key.Key, key.DER)
			if rng.Intn(2) == 0 {
				mustSign(root, so)
			} else {
				mustSign(a, so)
			}
			net[fmt.Sprintf("Response/%d/%s/%s", i, s, by)] = idp.Encode(idp.Serialize(root, lay, rng), rng.Intn(2) == 0)
			if by == "idp" {
				issued[fmt.Sprintf("%s/%d", s, i)] = [2]string{nameID, sidx}
			}
		case "SPConsume":
			i, s, by := intOf(e[1]), strOf(e[2]), strOf(e[3])
			ev = append(ev, i, s, by)
			enc := net[fmt.Sprintf("Response/%d/%s/%s", i, s, by)]
			info, err := sp.RetrieveAssertionInfo(enc)
			if err == nil && info != nil {
				resp, err2 := sp.ValidateEncodedResponse(enc)
				if err2 != nil {
					fail("info accepted, validation rejected: %v", err2)
					break
				}
				// the caller's bookkeeping, on real values only
				m, known := modelOf[resp.InResponseTo]
				if known && pending[m] {
					delete(pending, m)
					subj := strings.TrimSuffix(info.NameID, "@example.com")
					sessions = append(sessions, prSession{subj, info.NameID, info.SessionIndex, m})
					if want := issued[fmt.Sprintf("%s/%d", subj, m)]; want[0] != info.NameID || want[1] != info.SessionIndex {
						o.ValuesRoundtrip = false
						fail("validated NameID/SessionIndex %q %q differ from what the IdP issued %q", info.NameID, info.SessionIndex, want)
					}
				}
			}
		case "SPLogout":
			s := strOf(e[2])
			nreq++
			ev = append(ev, nreq, s)
			var sess *prSession
			for k := range sessions {
				if sessions[k].subj == s {
					sess = &sessions[k]
				}
			}
			if sess == nil {
				fail("model logs out %s but the real SP has no such session", s)
				break
			}
			doc, err := sp.BuildLogoutRequestDocument(sess.nameID, sess.sessionIndex)
			if err != nil {
				fail("build logout: %v", err)
				break
			}
			b, _ := doc.WriteToBytes()
			if root := idpReads(b, "LogoutRequest"); root != nil {
				id, _ := root.Attr("ID")
				realID[nreq], modelOf[id] = id, nreq
				lpending[nreq] = s
				n, si := root.Child("NameID"), root.Child("SessionIndex")
				want := issued[fmt.Sprintf("%s/%d", s, sess.via)]
				if n == nil || si == nil || n.Text != want[0] || si.Text != want[1] {
					o.ValuesRoundtrip = false
					fail("LogoutRequest does not carry the NameID / SessionIndex the IdP issued")
				}
			}
		case "IdPLogoutRespond", "AttForgeLogout":
			i := intOf(e[1])
			ev = append(ev, i, strOf(e[2]))
			lay := layoutFor(rng, true)
			b := idp.NewBuilder(lay, c.Seed+int64(len(net)))
			ls := logoutSpec("resp", fmt.Sprintf("_lresp-%d-%d", i, len(net)))
			ls.InResponseTo = idp.S(realID[i])
			root := b.ResponseEl(ls)
			key, by := w.IdpA, "idp"
			if kind == "AttForgeLogout" {
				key, by = w.Att, "att"
			}
			mustSign(root, idp.DefaultSig(key.Key, key.DER))
			net[fmt.Sprintf("LogoutResponse/%d/%s", i, by)] = idp.Encode(idp.Serialize(root, lay, rng), rng.Intn(2) == 0)
		case "IdPLogoutRequest", "AttForgeLogoutRequest":
			i, subj, by := intOf(e[1]), strOf(e[2]), strOf(e[3])
			ev = append(ev, i, subj, by)
			lay := layoutFor(rng, true)
			b := idp.NewBuilder(lay, c.Seed+int64(len(net)))
			ls := logoutSpec("req", fmt.Sprintf("_idplr-%d-%d", i, len(net)))
			ls.NameID = idp.S(subj + "@example.com")
			idpReq[ls.ID] = i
			root := b.ResponseEl(ls)
			switch by {
			case "idp":
				mustSign(root, idp.DefaultSig(w.IdpA.Key, w.IdpA.DER))
			case "att":
				mustSign(root, idp.DefaultSig(w.Att.Key, w.Att.DER))
			}
			net[fmt.Sprintf("IdPLogoutRequest/%d/%s/%s", i, subj, by)] = idp.Encode(idp.Serialize(root, lay, rng), rng.Intn(2) == 0)
		case "SPConsumeLogoutRequest":
			i, subj, by := intOf(e[1]), strOf(e[2]), strOf(e[3])
			ev = append(ev, i, subj, by)
			r, err := sp.ValidateEncodedLogoutRequestPOST(net[fmt.Sprintf("IdPLogoutRequest/%d/%s/%s", i, subj, by)])
			// the caller acts only on a request the library reports as signature-validated
			if err == nil && r != nil && r.SignatureValidated && r.NameID != nil {
				kept := sessions[:0]
				for _, s := range sessions {
					if s.nameID != r.NameID.Value {
						kept = append(kept, s)
					}
				}
				sessions = kept
				doc, err := sp.BuildLogoutResponseDocument(saml2.StatusCodeSuccess, r.ID)
				if err != nil {
					fail("build logout response: %v", err)
					break
				}
				bts, _ := doc.WriteToBytes()
				if root := idpReads(bts, "LogoutResponse"); root != nil {
					irt, _ := root.Attr("InResponseTo")
					dst, _ := root.Attr("Destination")
					code := ""
					if st := root.Child("Status"); st != nil {
						if sc := st.Child("StatusCode"); sc != nil {
							code, _ = sc.Attr("Value")
						}
					}
					m, known := idpReq[irt]
					if !known || dst != world.IdpSLO || code != saml2.StatusCodeSuccess {
						o.ValuesRoundtrip = false
						fail("LogoutResponse does not answer the IdP's request: InResponseTo %q Destination %q status %q", irt, dst, code)
					} else {
						answered[m] = true
					}
				}
			}
		case "SPConsumeLogout":
			i, by := intOf(e[1]), strOf(e[2])
			ev = append(ev, i, by)
			r, err := sp.ValidateEncodedLogoutResponsePOST(net[fmt.Sprintf("LogoutResponse/%d/%s", i, by)])
			if err == nil && r != nil && r.SignatureValidated {
				if m, known := modelOf[r.InResponseTo]; known {
					if subj, waiting := lpending[m]; waiting {
						delete(lpending, m)
						kept := sessions[:0]
						for _, s := range sessions {
							if s.subj != subj {
								kept = append(kept, s)
							}
						}
						sessions = kept
					}
				}
			}
		}
		st := prState{Pending: []int{}, Sessions: [][2]any{}, LPending: [][2]any{}, Answered: []int{}}
		for m := range answered {
			st.Answered = append(st.Answered, m)
		}
		sort.Ints(st.Answered)
		for m := range pending {
			st.Pending = append(st.Pending, m)
		}
		sort.Ints(st.Pending)
		for _, s := range sessions {
			st.Sessions = append(st.Sessions, [2]any{s.subj, s.via})
		}
		for m, s := range lpending {
			st.LPending = append(st.LPending, [2]any{m, s})
		}
		o.Events = append(o.Events, ev)
		o.States = append(o.States, st)
	}
	return &orch.Outcome{Obs: o, Replay: map[string]any{"note": o.Note, "behaviour": in.Hist}}
}

func (Protocol) Corrupt(c *orch.Case, o *orch.Outcome) (any, string, bool) {
	ob := o.Obs.(*prObs)
	for i, st := range ob.States {
		if len(st.Sessions) > 0 {
			cp := *ob
			cp.States = append([]prState{}, ob.States...)
			s2 := cp.States[i]
			s2.Sessions = append([][2]any{}, s2.Sessions...)
			s2.Sessions[0] = [2]any{"mallory", s2.Sessions[0][1]}
			cp.States[i] = s2
			return &cp, "P_STATE", true
		}
	}
	return nil, "", false
}

var _ = etree.NewDocument
var _ = saml2.ErrSaml{}
