// Package orch runs one verification pipeline:
//
//	TLC (MC_<family>: exhaustive model check + case emission)
//	  -> Go driver (concretise each abstract case, call the real code, project)
//	  -> TLC (Trace_<family>: monitors + conformance on every recorded call)
//	  -> verdicts, replay files, evidence.
package orch

import (
	"bufio"
	"bytes"
	"crypto/sha256"
	"encoding/hex"
	"encoding/json"
	"fmt"
	"math/rand"
	"os"
	"os/exec"
	"path/filepath"
	"regexp"
	"runtime"
	"sort"
	"strconv"
	"strings"
	"sync"
	"sync/atomic"
	"time"
)

// VerifDir is the root of the verification tree (bin/check exports VERIF_DIR; default /verif).
var VerifDir = func() string {
	if d := os.Getenv("VERIF_DIR"); d != "" {
		return d
	}
	return "/verif"
}()

// Case is one abstract case, as emitted by TLC or built by a family's own generator.
type Case struct {
	Key      string          `json:"case"`
	Src      string          `json:"src"`
	Family   string          `json:"family"`
	Cfg      json.RawMessage `json:"cfg"`
	Input    json.RawMessage `json:"input"`
	ModelOut json.RawMessage `json:"model_out,omitempty"`
	Seed     int64           `json:"seed"`
}

// Outcome is what the driver observed for a case.
type Outcome struct {
	Obs     any            // JSON-able abstract observation (the trace line's "obs")
	Replay  map[string]any // concrete material for a replay file
	Trivial bool           // outcome carries no information (counts against distinct_nontrivial)
	Labels  []string       // class labels used to match known findings
}

type Family interface {
	Name() string
	// MC returns the module and config of the exhaustive model for a tier ("" = none).
	MC(tier string) (module, cfg string)
	// Trace returns the trace-validation module and config.
	Trace() (module, cfg string)
	// Cap bounds how many TLC-emitted cases are replayed in a tier (0 = all).
	Cap(tier string) int
	// Extra returns cases beyond the TLC-emitted ones (random, fixtures, byte level).
	Extra(tier string, seed int64) []Case
	// Run executes a case against the real code.
	Run(c *Case) *Outcome
	// Layouts is the number of seeded concretisations per case in a tier.
	Layouts(tier string) int
}

type Fail struct {
	Case    Case
	Monitor string
	Obs     json.RawMessage
	Labels  []string
	Replay  string
}

type FamilyReport struct {
	AllCases      []Case // every case of the run (background load when failures are re-run)
	Family        string
	MCStates      int
	MCDistinct    int
	TLCCases      int
	Replayed      int
	ExtraCases    int
	TraceLines    int
	TraceStates   int
	NonTrivial    int
	Drift         []string
	Fails         []Fail
	Samples       []any
	Exhaustive    bool
	Wall          float64
	MCWall        float64
	TraceWall     float64
	DriverWall    float64
	SelfTestFired bool
}

// ToolError is an internal failure (exit 2), never a violation.
type ToolError struct{ Msg string }

func (e ToolError) Error() string { return e.Msg }

func Fatal(format string, a ...any) {
	fmt.Fprintf(os.Stderr, "INTERNAL-ERROR: "+format+"\n", a...)
	os.Exit(2)
}

var tlcJar = "/opt/veriftools/tla/tla2tools.jar:/opt/veriftools/tla/CommunityModules-deps.jar"

type TLCResult struct {
	Generated, Distinct int
	OK                  bool
	Out                 string
	Wall                float64
}

var reStates = regexp.MustCompile(`(\d+) states generated, (\d+) distinct states found`)

// Scratch creates a private directory holding a copy of the specification.
func Scratch() string {
	d, err := os.MkdirTemp("", "verif-run-")
	if err != nil {
		Fatal("mkdtemp: %v", err)
	}
	for _, pat := range []string{"*.tla", "*.cfg"} {
		files, _ := filepath.Glob(filepath.Join(VerifDir, "spec", pat))
		for _, f := range files {
			b, err := os.ReadFile(f)
			if err != nil {
				Fatal("read %s: %v", f, err)
			}
			os.WriteFile(filepath.Join(d, filepath.Base(f)), b, 0o644)
		}
	}
	return d
}

// RunTLC runs TLC on module/cfg inside dir with extra environment.
func RunTLC(dir, module, cfg string, workers int, timeout time.Duration, env map[string]string, extra ...string) TLCResult {
	meta, _ := os.MkdirTemp(dir, "meta-")
	args := []string{"-XX:+UseParallelGC", "-Xss64m", "-Xmx10g", "-cp", tlcJar, "tlc2.TLC",
		"-workers", strconv.Itoa(workers), "-metadir", meta, "-config", cfg}
	args = append(args, extra...)
	args = append(args, module)
	cmd := exec.Command("java", args...)
	cmd.Dir = dir
	cmd.Env = os.Environ()
	for k, v := range env {
		cmd.Env = append(cmd.Env, k+"="+v)
	}
	var out bytes.Buffer
	cmd.Stdout = &out
	cmd.Stderr = &out
	t0 := time.Now()
	if err := cmd.Start(); err != nil {
		Fatal("cannot start TLC: %v", err)
	}
	done := make(chan error, 1)
	go func() { done <- cmd.Wait() }()
	var err error
	select {
	case err = <-done:
	case <-time.After(timeout):
		cmd.Process.Kill()
		<-done
		return TLCResult{Out: out.String() + "\nTIMEOUT", Wall: time.Since(t0).Seconds()}
	}
	res := TLCResult{Out: out.String(), Wall: time.Since(t0).Seconds()}
	if m := reStates.FindAllStringSubmatch(res.Out, -1); len(m) > 0 {
		last := m[len(m)-1]
		res.Generated, _ = strconv.Atoi(last[1])
		res.Distinct, _ = strconv.Atoi(last[2])
	}
	res.OK = err == nil && strings.Contains(res.Out, "Model checking completed. No error has been found.")
	os.RemoveAll(meta)
	return res
}

func tail(s string, n int) string {
	lines := strings.Split(s, "\n")
	if len(lines) > n {
		lines = lines[len(lines)-n:]
	}
	return strings.Join(lines, "\n")
}

func caseKey(c *Case) string {
	h := sha256.New()
	h.Write([]byte(c.Family))
	h.Write(c.Cfg)
	h.Write(c.Input)
	fmt.Fprintf(h, "|%d|%s", c.Seed, c.Src)
	return hex.EncodeToString(h.Sum(nil))[:16]
}

// ReadCases parses an ndjson case file emitted by TLC.
func ReadCases(path string) []Case {
	f, err := os.Open(path)
	if os.IsNotExist(err) {
		return nil // a model that proves invariants only and emits no cases
	}
	if err != nil {
		Fatal("open cases: %v", err)
	}
	defer f.Close()
	var cases []Case
	sc := bufio.NewScanner(f)
	sc.Buffer(make([]byte, 1<<20), 1<<26)
	for sc.Scan() {
		line := bytes.TrimSpace(sc.Bytes())
		if len(line) == 0 {
			continue
		}
		var c Case
		if err := json.Unmarshal(line, &c); err != nil {
			Fatal("torn or invalid case line: %v: %.200s", err, line)
		}
		c.Src = "tlc"
		cases = append(cases, c)
	}
	return cases
}

type traceLine struct {
	Key   string          `json:"case"`
	Src   string          `json:"src"`
	Cfg   json.RawMessage `json:"cfg"`
	Input json.RawMessage `json:"input"`
	Obs   any             `json:"obs"`
}

type verdictLine struct {
	Key   string   `json:"case"`
	Fails []string `json:"fails"`
	Drift bool     `json:"drift"`
}

type Options struct {
	Tier      string
	Seed      int64
	Workers   int
	SelfTest  bool
	OnlyCases []Case // replay mode: run exactly these
}

// RunFamily executes the whole pipeline for one family.
func RunFamily(f Family, o Options) *FamilyReport {
	t0 := time.Now()
	rep := &FamilyReport{Family: f.Name()}
	dir := Scratch()
	defer os.RemoveAll(dir)
	if o.Workers == 0 {
		o.Workers = runtime.NumCPU()
	}

	var cases []Case
	if o.OnlyCases != nil {
		cases = o.OnlyCases
	} else {
		if mod, cfg := f.MC(o.Tier); mod != "" {
			casesFile := filepath.Join(dir, "cases.ndjson")
			args := []string{}
			if o.Tier == "thorough" {
				args = append(args, "-coverage", "1")
			}
			r := RunTLC(dir, mod, cfg, o.Workers, 40*time.Minute, map[string]string{"VERIF_OUT": casesFile}, args...)
			rep.MCWall = r.Wall
			if !r.OK {
				Fatal("model check of %s/%s failed (this is a defect of the specification, not of the code):\n%s", mod, cfg, tail(r.Out, 60))
			}
			rep.MCStates, rep.MCDistinct = r.Generated, r.Distinct
			if o.Tier == "thorough" {
				if v := vacuous(r.Out); len(v) > 0 {
					Fatal("vacuity: specification actions never taken in %s: %v", mod, v)
				}
			}
			tlc := ReadCases(casesFile)
			rep.TLCCases = len(tlc)
			rng := rand.New(rand.NewSource(o.Seed))
			// canonical order first: TLC's emission order depends on worker scheduling
			sort.Slice(tlc, func(i, j int) bool {
				return string(tlc[i].Cfg)+string(tlc[i].Input) < string(tlc[j].Cfg)+string(tlc[j].Input)
			})
			if cp := f.Cap(o.Tier); cp > 0 && len(tlc) > cp {
				// stratified: cases the family marks as always-kept first, a seeded sample of the rest
				rng.Shuffle(len(tlc), func(i, j int) { tlc[i], tlc[j] = tlc[j], tlc[i] })
				if kp, ok := f.(interface{ Keep(*Case) bool }); ok {
					// the family's preferred cases come first, but never take more than a third of the sample
					var pref, rest []Case
					for i := range tlc {
						if kp.Keep(&tlc[i]) {
							pref = append(pref, tlc[i])
						} else {
							rest = append(rest, tlc[i])
						}
					}
					if len(pref) > cp/3 && len(rest) >= cp-cp/3 {
						pref = pref[:cp/3]
					}
					tlc = append(pref, rest...)
				}
				tlc = tlc[:cp]
			} else {
				rep.Exhaustive = true
			}
			n := f.Layouts(o.Tier)
			if n < 1 {
				n = 1
			}
			for _, c := range tlc {
				for k := 0; k < n; k++ {
					cc := c
					cc.Seed = o.Seed*1000003 + int64(k)*7919 + int64(rng.Intn(1<<30))
					cases = append(cases, cc)
				}
			}
			rep.Replayed = len(tlc)
		}
		extra := f.Extra(o.Tier, o.Seed)
		rep.ExtraCases = len(extra)
		cases = append(cases, extra...)
	}
	for i := range cases {
		cases[i].Family = f.Name()
		if cases[i].Key == "" {
			cases[i].Key = caseKey(&cases[i])
		}
	}

	// drive the real code
	td := time.Now()
	outs := make([]*Outcome, len(cases))
	var completed atomic.Int64
	var wg sync.WaitGroup
	ch := make(chan int, 256)
	nw := o.Workers
	if sf, ok := f.(interface{ Serial() bool }); ok && sf.Serial() {
		nw = 1
	}
	for wk := 0; wk < nw; wk++ {
		wg.Add(1)
		go func() {
			defer wg.Done()
			for i := range ch {
				if Prelude != nil {
					Prelude(&cases[i])
				}
				t1 := time.Now()
				outs[i] = f.Run(&cases[i])
				if d := time.Since(t1); d > 2*time.Second && os.Getenv("VERIF_SLOW") != "" {
					fmt.Fprintf(os.Stderr, "slow case %.1fs %s cfg=%s input=%s\n", d.Seconds(), f.Name(), cases[i].Cfg, cases[i].Input)
				}
				completed.Add(1)
				if len(cases) > 20000 {
					outs[i].Replay = nil // regenerated for the few cases that need a replay file
				}
			}
		}()
	}
	// watchdog: a check never hangs -- if no case completes for a long time the run ends as a tool error
	stopWatch := make(chan struct{})
	go func() {
		last, lastAt := int64(-1), time.Now()
		for {
			select {
			case <-stopWatch:
				return
			case <-time.After(5 * time.Second):
				if c := completed.Load(); c != last {
					last, lastAt = c, time.Now()
				} else if time.Since(lastAt) > 15*time.Minute {
					Fatal("family %s: no case has completed for 15 minutes (a call into the library does not return?)", f.Name())
				}
			}
		}
	}()
	for i := range cases {
		ch <- i
	}
	close(ch)
	wg.Wait()
	close(stopWatch)
	rep.DriverWall = time.Since(td).Seconds()

	// record the trace
	traceFile := filepath.Join(dir, "trace.ndjson")
	verdictFile := filepath.Join(dir, "verdict.ndjson")
	writeTrace := func(path string, mutate func(i int, tl *traceLine) bool) int {
		fh, err := os.Create(path)
		if err != nil {
			Fatal("create trace: %v", err)
		}
		bw := bufio.NewWriterSize(fh, 1<<20)
		n := 0
		for i := range cases {
			tl := traceLine{Key: cases[i].Key, Src: cases[i].Src, Cfg: cases[i].Cfg, Input: cases[i].Input, Obs: outs[i].Obs}
			if mutate != nil && !mutate(i, &tl) {
				continue
			}
			b, err := json.Marshal(tl)
			if err != nil {
				Fatal("marshal trace line: %v", err)
			}
			bw.Write(b)
			bw.WriteByte('\n')
			n++
		}
		bw.Flush()
		fh.Close()
		return n
	}
	rep.TraceLines = writeTrace(traceFile, nil)
	keys := map[string]int{}
	distinct := map[string]bool{}
	for i := range cases {
		keys[cases[i].Key] = i
		if !outs[i].Trivial {
			distinct[string(cases[i].Cfg)+string(cases[i].Input)] = true
		}
	}
	rep.NonTrivial = len(distinct)

	if rep.TraceLines > 0 {
		mod, cfg := f.Trace()
		r := RunTLC(dir, mod, cfg, 1, 40*time.Minute, map[string]string{"VERIF_TRACE": traceFile, "VERIF_VERDICT": verdictFile})
		rep.TraceWall = r.Wall
		if !r.OK {
			Fatal("trace validation run %s failed (trace not consumed to the end or tool error):\n%s", mod, tail(r.Out, 60))
		}
		rep.TraceStates = r.Distinct
		if keep := os.Getenv("VERIF_KEEP"); keep != "" {
			os.MkdirAll(keep, 0o755)
			for _, fn := range []string{traceFile, verdictFile} {
				if b, err := os.ReadFile(fn); err == nil {
					name := f.Name() + "." + filepath.Base(fn)
					if o.OnlyCases != nil {
						name = "rerun." + name
					}
					os.WriteFile(filepath.Join(keep, name), b, 0o644)
				}
			}
		}
		vs := readVerdicts(verdictFile)
		if len(vs) != rep.TraceLines {
			Fatal("trace validation consumed %d of %d lines", len(vs), rep.TraceLines)
		}
		for _, v := range vs {
			i, ok := keys[v.Key]
			if !ok {
				Fatal("verdict for unknown case %s", v.Key)
			}
			if v.Drift {
				rep.Drift = append(rep.Drift, v.Key)
			}
			for _, m := range v.Fails {
				ob, _ := json.Marshal(outs[i].Obs)
				rep.Fails = append(rep.Fails, Fail{Case: cases[i], Monitor: m, Obs: ob, Labels: outs[i].Labels})
			}
		}
		// binding self-test: corrupt one recorded observation and drop one line;
		// the first must be flagged by the specification, the second must leave the trace unaccepted
		if o.SelfTest && rep.TraceLines >= 2 {
			failedKeys := map[string]bool{}
			for _, fl := range rep.Fails {
				failedKeys[fl.Case.Key] = true
			}
			for _, d := range rep.Drift {
				failedKeys[d] = true
			}
			rep.SelfTestFired = selfTest(f, dir, cases, outs, failedKeys)
		}
	}

	// samples
	for i := 0; i < len(cases) && len(rep.Samples) < 4; i += 1 + len(cases)/4 {
		rep.Samples = append(rep.Samples, map[string]any{"case": cases[i].Key, "src": cases[i].Src, "cfg": cases[i].Cfg, "input": cases[i].Input, "obs": outs[i].Obs})
	}
	// attach replay material to failures
	for k := range rep.Fails {
		i := keys[rep.Fails[k].Case.Key]
		if outs[i].Replay == nil && k < 200 {
			if again := f.Run(&cases[i]); again != nil {
				outs[i].Replay = again.Replay
			}
		}
		rep.Fails[k].Replay = WriteReplay(&cases[i], outs[i], rep.Fails[k].Monitor)
	}
	rep.AllCases = cases
	rep.Wall = time.Since(t0).Seconds()
	return rep
}

// Prelude, when set, runs before every case on the goroutine that then runs the case.
var Prelude func(c *Case)

func readVerdicts(path string) []verdictLine {
	fh, err := os.Open(path)
	if err != nil {
		Fatal("open verdicts: %v", err)
	}
	defer fh.Close()
	var vs []verdictLine
	sc := bufio.NewScanner(fh)
	sc.Buffer(make([]byte, 1<<20), 1<<26)
	for sc.Scan() {
		if len(bytes.TrimSpace(sc.Bytes())) == 0 {
			continue
		}
		var v verdictLine
		if err := json.Unmarshal(sc.Bytes(), &v); err != nil {
			Fatal("bad verdict line: %v: %.200s", err, sc.Bytes())
		}
		vs = append(vs, v)
	}
	return vs
}

var reCov = regexp.MustCompile(`(?m)^<(\w+) line \d+, col \d+ to line \d+, col \d+ of module (\w+)>: (\d+):(\d+)`)

// vacuous lists named actions that TLC never took (from -coverage output).
func vacuous(out string) []string {
	seen := map[string]int{}
	for _, m := range reCov.FindAllStringSubmatch(out, -1) {
		n, _ := strconv.Atoi(m[4])
		if n > seen[m[1]] {
			seen[m[1]] = n
		} else if _, ok := seen[m[1]]; !ok {
			seen[m[1]] = n
		}
	}
	var v []string
	for a, n := range seen {
		if n == 0 && a != "Init" {
			v = append(v, a)
		}
	}
	sort.Strings(v)
	return v
}

// WriteReplay stores everything needed to re-run a failing case by hand.
func WriteReplay(c *Case, o *Outcome, monitor string) string {
	os.MkdirAll(filepath.Join(VerifDir, "replays"), 0o755)
	p := filepath.Join(VerifDir, "replays", fmt.Sprintf("%s-%s-%s.json", monitor, c.Family, c.Key))
	doc := map[string]any{"monitor": monitor, "case": c, "observed": o.Obs, "labels": o.Labels, "concrete": o.Replay}
	b, _ := json.MarshalIndent(doc, "", " ")
	os.WriteFile(p, b, 0o644)
	return p
}

// LoadReplay reads a replay file back into a case.
func LoadReplay(path string) (*Case, string) {
	b, err := os.ReadFile(path)
	if err != nil {
		Fatal("read replay: %v", err)
	}
	var doc struct {
		Monitor string `json:"monitor"`
		Case    Case   `json:"case"`
	}
	if err := json.Unmarshal(b, &doc); err != nil {
		Fatal("parse replay: %v", err)
	}
	return &doc.Case, doc.Monitor
}
