package orch

import (
	"bufio"
	"encoding/json"
	"fmt"
	"os"
	"path/filepath"
	"strings"
	"time"
)

// Corrupter is implemented by families that can demonstrate the binding:
// given a real outcome, return an observation that must trip the named monitor.
type Corrupter interface {
	Corrupt(c *Case, o *Outcome) (obs any, monitor string, ok bool)
}

func selfTest(f Family, dir string, cases []Case, outs []*Outcome, failed map[string]bool) bool {
	cr, ok := f.(Corrupter)
	if !ok {
		return false
	}
	for i := range cases {
		if failed[cases[i].Key] {
			continue // corrupt only observations that were judged fine
		}
		obs, mon, ok := cr.Corrupt(&cases[i], outs[i])
		if !ok {
			continue
		}
		tf := filepath.Join(dir, "selftest.ndjson")
		vf := filepath.Join(dir, "selftest.verdict.ndjson")
		b, _ := json.Marshal(traceLine{Key: cases[i].Key, Src: "selftest", Cfg: cases[i].Cfg, Input: cases[i].Input, Obs: obs})
		os.WriteFile(tf, append(b, '\n'), 0o644)
		mod, cfg := f.Trace()
		r := RunTLC(dir, mod, cfg, 1, 5*time.Minute, map[string]string{"VERIF_TRACE": tf, "VERIF_VERDICT": vf})
		if !r.OK {
			Fatal("self-test trace run failed:\n%s", tail(r.Out, 40))
		}
		vs := readVerdicts(vf)
		if len(vs) != 1 {
			Fatal("self-test: expected one verdict, got %d", len(vs))
		}
		for _, m := range vs[0].Fails {
			if m == mon {
				return true
			}
		}
		Fatal("self-test: corrupted observation was not flagged by monitor %s (binding broken)", mon)
	}
	return false
}

// KnownFinding is an entry of /verif/KNOWN_FINDINGS.txt.
type KnownFinding struct {
	Open     bool
	Property string
	Match    []string // labels that must all be present on the failing case
	Text     string
	Hit      bool
}

func LoadKnown() []*KnownFinding {
	fh, err := os.Open(filepath.Join(VerifDir, "KNOWN_FINDINGS.txt"))
	if err != nil {
		return nil
	}
	defer fh.Close()
	var out []*KnownFinding
	sc := bufio.NewScanner(fh)
	for sc.Scan() {
		line := strings.TrimSpace(sc.Text())
		if line == "" || strings.HasPrefix(line, "#") {
			continue
		}
		kf := &KnownFinding{}
		switch {
		case strings.HasPrefix(line, "open:"):
			kf.Open = true
			line = strings.TrimSpace(strings.TrimPrefix(line, "open:"))
		case strings.HasPrefix(line, "fixed:"):
			line = strings.TrimSpace(strings.TrimPrefix(line, "fixed:"))
		default:
			continue
		}
		fields := strings.Fields(line)
		rest := []string{}
		for _, fl := range fields {
			switch {
			case strings.HasPrefix(fl, "property=") && kf.Property == "":
				kf.Property = strings.TrimPrefix(fl, "property=")
			case strings.HasPrefix(fl, "match=") && kf.Match == nil:
				kf.Match = strings.Split(strings.TrimPrefix(fl, "match="), ",")
			default:
				rest = append(rest, fl)
			}
		}
		kf.Text = strings.Join(rest, " ")
		out = append(out, kf)
	}
	return out
}

func (k *KnownFinding) matches(prop string, labels []string) bool {
	if !k.Open || k.Property != prop || len(k.Match) == 0 {
		return false
	}
	have := map[string]bool{}
	for _, l := range labels {
		have[l] = true
	}
	for _, m := range k.Match {
		if !have[m] {
			return false
		}
	}
	return true
}

// Part is one family's contribution to a property check.
type Part struct {
	Family   Family
	Monitors []string // monitor names of that family's trace spec that decide this property
}

// CustomStep is a check that does not fit the case/trace pipeline (e.g. a race-detector run).
// It returns replay paths of violations, an evidence fragment and whether a tool failed.
type CustomStep func(tier string, seed int64) (violations []string, evidence map[string]any)

type PropertySpec struct {
	Custom      []CustomStep
	ID          string
	Level       string
	Parts       []Part
	Assumptions []string
	Rule        string
}

// CheckProperty runs every part, applies the verdict policy, writes evidence, and
// returns the process exit code.
func CheckProperty(ps PropertySpec, tier string, seed int64) int {
	t0 := time.Now()
	known := LoadKnown()
	var reports []*FamilyReport
	violations := 0
	reported := map[string]bool{}
	for _, p := range ps.Parts {
		rep := RunFamily(p.Family, Options{Tier: tier, Seed: seed, SelfTest: true})
		reports = append(reports, rep)
		want := map[string]bool{}
		for _, m := range p.Monitors {
			want[m] = true
		}
		// a verdict needs a reproducible observation: re-run every failing case once and let
		// TLC judge the second observation too
		var again []Case
		seen := map[string]bool{}
		for _, fl := range rep.Fails {
			if want[fl.Monitor] && !seen[fl.Case.Key] {
				seen[fl.Case.Key] = true
				again = append(again, fl.Case)
			}
		}
		confirmed := map[string]bool{}
		if len(again) > 0 {
			// Up to three attempts. The failing cases are re-run together with a slice of the other
			// cases of the run as background load on the same number of workers: a failure that needs
			// concurrent activity (shared pools, races) reproduces only under such load.
			isFailing := map[string]bool{}
			for _, c := range again {
				isFailing[c.Key] = true
			}
			for attempt := 0; attempt < 3; attempt++ {
				batch := append([]Case{}, again...)
				if attempt > 0 {
					for _, c := range rep.AllCases {
						if len(batch) >= len(again)+3000 {
							break
						}
						if !isFailing[c.Key] {
							batch = append(batch, c)
						}
					}
				}
				rep2 := RunFamily(p.Family, Options{Tier: tier, Seed: seed, OnlyCases: batch})
				for _, fl := range rep2.Fails {
					confirmed[fl.Case.Key+"/"+fl.Monitor] = true
				}
				all := true
				for _, fl := range rep.Fails {
					if want[fl.Monitor] && !confirmed[fl.Case.Key+"/"+fl.Monitor] {
						all = false
					}
				}
				if all {
					break
				}
			}
		}
		unrepro := 0
		for _, fl := range rep.Fails {
			if !want[fl.Monitor] {
				continue
			}
			if !confirmed[fl.Case.Key+"/"+fl.Monitor] {
				// Not every instance of a load-dependent failure comes back; the verdict rests on those that do.
				unrepro++
				if unrepro <= 3 {
					fmt.Printf("UNREPRODUCED property=%s case=%s monitor=%s first observation %s\n", ps.ID, fl.Case.Key, fl.Monitor, fl.Obs)
				}
				continue
			}
			matched := false
			for _, k := range known {
				if k.matches(ps.ID, fl.Labels) {
					matched = true
					if !k.Hit {
						k.Hit = true
						fmt.Printf("KNOWN-FINDING: property=%s %s (e.g. replay=%s)\n", ps.ID, k.Text, fl.Replay)
					}
					break
				}
			}
			if matched {
				continue
			}
			violations++
			if len(reported) < 25 && !reported[fl.Replay] {
				reported[fl.Replay] = true
				fmt.Printf("VIOLATION property=%s replay=%s\n", ps.ID, fl.Replay)
				fmt.Printf("  family=%s monitor=%s labels=%v cfg=%s input=%s observed=%s\n", rep.Family, fl.Monitor, fl.Labels, fl.Case.Cfg, fl.Case.Input, fl.Obs)
			}
		}
		if unrepro > 0 && len(confirmed) == 0 {
			Fatal("%d monitor failure(s) in family %s did not reproduce in three further runs (never a violation)", unrepro, rep.Family)
		}
		failed := map[string]bool{}
		for _, fl := range rep.Fails {
			failed[fl.Case.Key] = true
		}
		pure := rep.Drift[:0:0]
		for _, d := range rep.Drift {
			if !failed[d] {
				pure = append(pure, d)
			}
		}
		rep.Drift = pure
		for i, d := range rep.Drift {
			if i < 5 {
				fmt.Printf("DRIFT family=%s case=%s (observed outcome differs from the implementation model but satisfies the property relation)\n", rep.Family, d)
			}
		}
		if len(rep.Drift) > 5 {
			fmt.Printf("DRIFT family=%s ... %d cases in total\n", rep.Family, len(rep.Drift))
		}
	}
	var customEv []map[string]any
	for _, cs := range ps.Custom {
		vs, ev := cs(tier, seed)
		customEv = append(customEv, ev)
		for _, v := range vs {
			violations++
			fmt.Printf("VIOLATION property=%s replay=%s\n", ps.ID, v)
		}
	}
	extraEvidence = customEv
	WriteEvidence(ps, tier, seed, reports, violations, time.Since(t0).Seconds())
	for _, r := range reports {
		fmt.Printf("family=%s mc_states=%d mc_distinct=%d tlc_cases=%d replayed=%d extra=%d trace_lines=%d nontrivial=%d drift=%d fails=%d exhaustive=%v selftest=%v wall=%.1fs (mc %.1fs, driver %.1fs, trace %.1fs)\n",
			r.Family, r.MCStates, r.MCDistinct, r.TLCCases, r.Replayed, r.ExtraCases, r.TraceLines, r.NonTrivial, len(r.Drift), len(r.Fails), r.Exhaustive, r.SelfTestFired, r.Wall, r.MCWall, r.DriverWall, r.TraceWall)
	}
	if violations > 0 {
		fmt.Printf("RESULT property=%s tier=%s violations=%d\n", ps.ID, tier, violations)
		return 1
	}
	fmt.Printf("RESULT property=%s tier=%s held on everything explored\n", ps.ID, tier)
	return 0
}

var extraEvidence []map[string]any

// WriteEvidence writes /verif/evidence/<id>.json per EVIDENCE.schema.json.
func WriteEvidence(ps PropertySpec, tier string, seed int64, reps []*FamilyReport, violations int, wall float64) {
	states, trans, traces, evals, nontriv, drift := 0, 0, 0, 0, 0, 0
	exhaustive := true
	var samples []any
	fams := []any{}
	selftest := false
	for _, r := range reps {
		states += r.MCDistinct + r.TraceStates
		trans += r.MCStates + r.TraceLines
		traces += r.TraceLines
		evals += r.TraceLines
		nontriv += r.NonTrivial
		drift += len(r.Drift)
		exhaustive = exhaustive && r.Exhaustive
		selftest = selftest || r.SelfTestFired
		samples = append(samples, r.Samples...)
		fams = append(fams, map[string]any{"family": r.Family, "mc_states_generated": r.MCStates, "mc_distinct_states": r.MCDistinct,
			"tlc_cases_emitted": r.TLCCases, "tlc_cases_replayed": r.Replayed, "extra_cases": r.ExtraCases, "trace_lines": r.TraceLines,
			"trace_states": r.TraceStates, "drift": len(r.Drift), "monitor_failures": len(r.Fails), "all_emitted_cases_replayed": r.Exhaustive,
			"mc_wall_s": r.MCWall, "driver_wall_s": r.DriverWall, "trace_wall_s": r.TraceWall})
	}
	if len(samples) > 8 {
		samples = samples[:8]
	}
	if states < 1 {
		states = 1
	}
	if trans < 1 {
		trans = 1
	}
	ev := map[string]any{
		"property_id": ps.ID, "tier": tier, "seed": seed, "level": ps.Level,
		"coverage": map[string]any{
			"states": states, "transitions": trans, "traces_validated_against_impl": traces,
			"evaluations": evals, "distinct_nontrivial": nontriv,
			"rule":       ps.Rule,
			"samples":    samples,
			"exhaustive": exhaustive,
			"families":   fams, "drift_cases": drift, "binding_selftest_fired": selftest, "other_steps": extraEvidence,
		},
		"assumptions": ps.Assumptions,
		"wall_s":      wall,
		"violations":  violations,
	}
	os.MkdirAll(filepath.Join(VerifDir, "evidence"), 0o755)
	b, _ := json.MarshalIndent(ev, "", " ")
	if err := os.WriteFile(filepath.Join(VerifDir, "evidence", ps.ID+".json"), b, 0o644); err != nil {
		Fatal("write evidence: %v", err)
	}
}
