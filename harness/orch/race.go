package orch

import (
	"bytes"
	"fmt"
	"os"
	"os/exec"
	"path/filepath"
	"strings"
	"time"
)

// RaceStep builds cmd/verifrace with the race detector (and the verif hooks) against /repo's
// current tree, runs it, and turns every report that involves gosaml2 frames into a violation.
func RaceStep(tier string, seed int64) ([]string, map[string]any) {
	t0 := time.Now()
	bin := filepath.Join(VerifDir, "build", fmt.Sprintf("verifrace.%d", os.Getpid()))
	build := exec.Command("go", "build", "-race", "-tags", "verif", "-o", bin, "./cmd/verifrace")
	build.Dir = filepath.Join(VerifDir, "harness")
	if h := os.Getenv("VERIF_HARNESS"); h != "" {
		build.Dir = h
	}
	if out, err := build.CombinedOutput(); err != nil {
		Fatal("cannot build the race-detector runner: %v\n%s", err, tail(string(out), 30))
	}
	defer os.Remove(bin)
	rounds, stress := "40", "1500"
	if tier == "thorough" {
		rounds, stress = "400", "20000"
	}
	cmd := exec.Command(bin, rounds, stress)
	cmd.Env = append(os.Environ(), "GORACE=halt_on_error=0 history_size=3")
	var out bytes.Buffer
	cmd.Stdout = &out
	cmd.Stderr = &out
	limit := 4 * time.Minute
	if tier == "thorough" {
		limit = 30 * time.Minute
	}
	if err := cmd.Start(); err != nil {
		Fatal("cannot start the race-detector runner: %v", err)
	}
	waitc := make(chan error, 1)
	go func() { waitc <- cmd.Wait() }()
	var err error
	hung := false
	select {
	case err = <-waitc:
	case <-time.After(limit):
		hung = true
		cmd.Process.Kill()
		<-waitc
	}
	text := out.String()
	blocks := strings.Split(text, "==================")
	var viol []string
	harnessOnly := 0
	for _, b := range blocks {
		if !strings.Contains(b, "DATA RACE") {
			continue
		}
		if strings.Contains(b, "russellhaering/gosaml2") || strings.Contains(b, "/repo/") {
			if len(viol) < 5 {
				p := filepath.Join(VerifDir, "replays", fmt.Sprintf("race-report-%d.txt", len(viol)+1))
				os.MkdirAll(filepath.Dir(p), 0o755)
				os.WriteFile(p, []byte("go build -race -tags verif ./cmd/verifrace && verifrace "+rounds+" "+stress+"\n"+b), 0o644)
				viol = append(viol, p)
			}
		} else {
			harnessOnly++
		}
	}
	if harnessOnly > 0 && len(viol) == 0 {
		Fatal("race detector reports involve only harness frames:\n%s", tail(text, 40))
	}
	wrong := false
	if hung && len(viol) == 0 {
		wrong = true
		p := filepath.Join(VerifDir, "replays", "race-runner-hung.txt")
		os.MkdirAll(filepath.Dir(p), 0o755)
		os.WriteFile(p, []byte("the operations run by cmd/verifrace did not return in time (they normally take seconds)\n"+tail(text, 60)), 0o644)
		viol = append(viol, p)
	} else if ee, ok := err.(*exec.ExitError); ok && len(viol) == 0 {
		if ee.ExitCode() == 3 {
			wrong = true
			p := filepath.Join(VerifDir, "replays", "race-wrong-results.txt")
			os.WriteFile(p, []byte(text), 0o644)
			viol = append(viol, p)
		} else if ee.ExitCode() != 66 { // 66 = race detector's exit code
			Fatal("race-detector runner failed: %v\n%s", err, tail(text, 40))
		}
	}
	summary := ""
	for _, l := range strings.Split(text, "\n") {
		if strings.HasPrefix(l, "verifrace:") {
			summary = l
		}
	}
	fmt.Printf("step=race-detector %s reports=%d wall=%.1fs\n", summary, len(viol), time.Since(t0).Seconds())
	return viol, map[string]any{"step": "race detector (go build -race -tags verif): sleep-slot steering of the first-use window of SigningContext() + ungated mix of all public operations on one shared SP",
		"rounds": rounds, "stress_ms": stress, "summary": summary, "reports_involving_gosaml2": len(viol), "wrong_results": wrong, "wall_s": time.Since(t0).Seconds()}
}
