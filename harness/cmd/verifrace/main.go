//go:build verif

// verifrace is built with -race -tags verif. It (1) steers goroutines into the first-use window of
// SigningContext() with sleep slots (no channel hand-off, which would itself order the accesses and
// hide a race) and (2) hammers every public operation of one shared service provider from many
// goroutines. The race detector reports on stderr; the caller scans for "DATA RACE".
package main

import (
	"fmt"
	"os"
	"strconv"
	"sync"
	"sync/atomic"
	"time"

	saml2 "github.com/russellhaering/gosaml2"
	dsig "github.com/russellhaering/goxmldsig"

	"verifharness/fam"
)

func main() {
	rounds := 40
	stress := 2 * time.Second
	if len(os.Args) > 1 {
		if v, err := strconv.Atoi(os.Args[1]); err == nil {
			rounds = v
		}
	}
	if len(os.Args) > 2 {
		if v, err := strconv.Atoi(os.Args[2]); err == nil {
			stress = time.Duration(v) * time.Millisecond
		}
	}
	// (1) sleep-slot steering: hold every goroutine inside a chosen observation point for a slot,
	// so that the segments overlap in real time
	var slot atomic.Int64
	saml2.VerifHook = func(point string) {
		if d := slot.Load(); d > 0 {
			switch point {
			case "sc.rlocked", "sc.runlock", "sc.locked", "sc.unlock":
				time.Sleep(time.Duration(d))
			}
		}
	}
	var bad atomic.Int64
	for r := 0; r < rounds; r++ {
		slot.Store(int64(200+100*(r%5)) * int64(time.Microsecond))
		sp := fam.RaceSP()
		var wg sync.WaitGroup
		for g := 0; g < 4; g++ {
			wg.Add(1)
			go func(g int) {
				defer wg.Done()
				time.Sleep(time.Duration(g*(r%4)*50) * time.Microsecond)
				for k := 0; k < 2; k++ {
					if !fam.RaceOp(sp, g+k+r) {
						bad.Add(1)
					}
				}
			}(g)
		}
		wg.Wait()
	}
	slot.Store(0)
	// (2) ungated stress of every public operation on one shared instance
	sp := fam.RaceSP()
	inputs := fam.RaceInputs()
	stop := time.Now().Add(stress)
	var wg sync.WaitGroup
	var calls atomic.Int64
	for g := 0; g < 12; g++ {
		wg.Add(1)
		go func(g int) {
			defer wg.Done()
			for i := 0; time.Now().Before(stop); i++ {
				fam.RaceMix(sp, inputs, g*7+i)
				calls.Add(1)
			}
		}(g)
	}
	wg.Wait()
	_ = dsig.Namespace
	fmt.Printf("verifrace: rounds=%d stress_calls=%d wrong_results=%d\n", rounds, calls.Load(), bad.Load())
	if bad.Load() > 0 {
		os.Exit(3)
	}
}
