// verifcheck decides one property: verifcheck <ID> <quick|thorough> | verifcheck <ID> --replay <file>
package main

import (
	"fmt"
	"os"
	"strconv"

	"verifharness/orch"
	"verifharness/props"
)

func main() {
	if len(os.Args) < 3 {
		fmt.Fprintln(os.Stderr, "usage: verifcheck <ID> <quick|thorough> | verifcheck <ID> --replay <file>")
		os.Exit(2)
	}
	id := os.Args[1]
	os.Setenv("VERIF_PROP", id)
	ps, ok := props.All()[id]
	if !ok {
		orch.Fatal("no check registered for %s", id)
	}
	seed := int64(1)
	if s := os.Getenv("VERIF_SEED"); s != "" {
		if v, err := strconv.ParseInt(s, 10, 64); err == nil {
			seed = v
		}
	}
	if os.Args[2] == "--replay" {
		if len(os.Args) < 4 {
			orch.Fatal("--replay needs a file")
		}
		os.Exit(props.Replay(ps, os.Args[3]))
	}
	tier := os.Args[2]
	if tier != "quick" && tier != "thorough" {
		orch.Fatal("unknown tier %q", tier)
	}
	os.Exit(orch.CheckProperty(ps, tier, seed))
}
