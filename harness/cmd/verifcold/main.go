//go:build verif

// verifcold is run many times by the checks: what it does is the FIRST thing that happens to the library in a
// fresh process, from several goroutines released together. Lazily initialised package-level state (tables,
// caches, pools) is visible only then.
//
//	verifcold ids        builds unsigned messages of all three kinds; prints identifiers and the entropy reads
//	verifcold ops a,b,c  runs the named Concur operations once each per goroutine; prints the ones with wrong results
package main

import (
	"crypto/rand"
	"encoding/json"
	"fmt"
	"os"
	"strings"
	"sync"

	"verifharness/fam"
)

func main() {
	if len(os.Args) < 2 {
		os.Exit(2)
	}
	switch os.Args[1] {
	case "ids":
		rec := fam.NewRecReader(rand.Reader)
		rand.Reader = rec
		out := fam.ColdIDs(12, 3)
		out.Reads = rec.Reads()
		json.NewEncoder(os.Stdout).Encode(out)
	case "ops":
		ops := strings.Split(os.Args[2], ",")
		shared := len(os.Args) > 3 && os.Args[3] == "shared"
		res := fam.ColdOps(ops, shared)
		json.NewEncoder(os.Stdout).Encode(res)
	default:
		fmt.Fprintln(os.Stderr, "unknown mode")
		os.Exit(2)
	}
	_ = sync.Mutex{}
}
