//go:build !verif

package sched

// The scheduler needs gosaml2 built with -tags verif.
