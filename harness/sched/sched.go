//go:build verif

// Package sched forces goroutine interleavings through the named observation points that
// gosaml2 exposes with -tags verif. Every point is a gate: a goroutine that reaches it blocks
// until the driver releases it, so at most one registered goroutine runs between two gates.
package sched

import (
	"bytes"
	"runtime"
	"strconv"
	"sync"
	"sync/atomic"
	"time"

	saml2 "github.com/russellhaering/gosaml2"
)

func goid() int64 {
	var buf [64]byte
	n := runtime.Stack(buf[:], false)
	// "goroutine 123 [running]:"
	f := bytes.Fields(buf[:n])
	if len(f) < 2 {
		return -1
	}
	id, _ := strconv.ParseInt(string(f[1]), 10, 64)
	return id
}

type proc struct {
	run     *Run
	idx     int
	at      string        // gate where the goroutine is blocked ("" = running, "exit" = finished)
	release chan struct{} // closed / sent to let it pass
}

// Run is one controlled execution.
type Run struct {
	mu      sync.Mutex
	notify  chan struct{}
	procs   []*proc
	Timeout time.Duration
}

var registry sync.Map // goroutine id -> *proc

var installOnce sync.Once

// YieldAtPoints makes goroutines that are not under a Run's control yield the processor at every
// observation point (used by the stress rounds: calls change hands inside SigningContext()).
var YieldAtPoints atomic.Bool

func install() {
	installOnce.Do(func() {
		saml2.VerifHook = func(point string) {
			if v, ok := registry.Load(goid()); ok {
				v.(*proc).gate(point)
			} else if YieldAtPoints.Load() {
				runtime.Gosched()
			}
		}
	})
}

var stuckRuns atomic.Int64

// NoteStuck records that a controlled goroutine neither reached a gate nor returned in time. After a few of those
// the waiting time of later runs is cut down: a library that blocks does so in thousands of schedules.
func NoteStuck() { stuckRuns.Add(1) }

func DefaultTimeout() time.Duration {
	if stuckRuns.Load() >= 3 {
		return 300 * time.Millisecond
	}
	return 20 * time.Second
}

// Install makes sure the hook is in place (NewRun does it too).
func Install() { install() }

func NewRun(n int) *Run {
	install()
	r := &Run{Timeout: DefaultTimeout(), notify: make(chan struct{}, 64)}
	for i := 0; i < n; i++ {
		r.procs = append(r.procs, &proc{run: r, idx: i, release: make(chan struct{}, 1)})
	}
	return r
}

func (p *proc) gate(point string) {
	r := p.run
	r.mu.Lock()
	p.at = point
	r.mu.Unlock()
	select {
	case r.notify <- struct{}{}:
	default:
	}
	<-p.release
}

// Go starts body as process idx (1-based in the specification, 0-based here). body receives a
// function to call at harness-level gates ("start" before each call).
func (r *Run) Go(idx int, body func(gate func(point string))) {
	p := r.procs[idx]
	go func() {
		id := goid()
		registry.Store(id, p)
		defer registry.Delete(id)
		body(p.gate)
		r.mu.Lock()
		p.at = "exit"
		r.mu.Unlock()
		select {
		case r.notify <- struct{}{}:
		default:
		}
	}()
}

// At returns the gate at which process idx is blocked, waiting (up to the timeout) while it runs.
// ok=false means it neither reached a gate nor exited in time (blocked on a lock, or stuck).
func (r *Run) At(idx int) (string, bool) {
	p := r.procs[idx]
	deadline := time.Now().Add(r.Timeout)
	for {
		r.mu.Lock()
		at := p.at
		r.mu.Unlock()
		if at != "" {
			return at, true
		}
		if time.Now().After(deadline) {
			return "", false
		}
		select {
		case <-r.notify:
		case <-time.After(time.Millisecond):
		}
	}
}

// Release lets process idx pass the gate it is blocked at.
func (r *Run) Release(idx int) {
	p := r.procs[idx]
	r.mu.Lock()
	p.at = ""
	r.mu.Unlock()
	p.release <- struct{}{}
}
