// Package world holds the fixed cast of a verification run: keys, certificates,
// the fake clock, the SP configuration, and the named assertion contents that the
// TLA+ vocabulary refers to (GA1, GA2, FA, CA).
package world

import (
	"crypto/x509"
	"fmt"
	"strings"
	"sync"
	"time"

	saml2 "github.com/russellhaering/gosaml2"
	"github.com/russellhaering/gosaml2/types"
	dsig "github.com/russellhaering/goxmldsig"

	"verifharness/idp"
)

const (
	ACS       = "https://sp.example.com/saml/acs"
	SLO       = "https://sp.example.com/saml/slo"
	SPIssuer  = "https://sp.example.com/metadata"
	IdpIssuer = "https://idp.example.org/metadata"
	IdpSSO    = "https://idp.example.org/sso"
	IdpSLO    = "https://idp.example.org/slo"
	Audience  = "https://sp.example.com/audience"
)

// T0 is the abstract tick 0; one tick is 500 ms. Deliberately far from wall time.
var T0 = time.Date(2031, 5, 6, 7, 8, 9, 0, time.UTC)

const TickDur = 500 * time.Millisecond

func Tick(t int) time.Time { return T0.Add(time.Duration(t) * TickDur) }

// Now is the default SP clock for families that do not vary time (tick 20).
var Now = Tick(20)

type World struct {
	IdpA, IdpB, IdpEC, Att, SP, SP2, SPSign, SPSign2 *idp.KeyPair
}

var (
	once sync.Once
	w    *World
)

// Get returns the process-wide world (keys are generated once).
func Get() *World {
	once.Do(func() {
		nb, na := T0.Add(-24*time.Hour), T0.Add(24*time.Hour)
		w = &World{
			IdpA:    idp.Cert(idp.RSAKey("idpA"), "idpA", nb, na),
			IdpB:    idp.Cert(idp.RSAKey("idpB"), "idpB", nb, na),
			IdpEC:   idp.Cert(idp.ECKey("idpEC"), "idpEC", nb, na),
			Att:     idp.Cert(idp.RSAKey("att"), "attacker", nb, na),
			SP:      idp.Cert(idp.RSAKey("sp"), "sp-enc", nb, na),
			SP2:     idp.Cert(idp.RSAKey("sp2"), "sp-enc-2", nb, na),
			SPSign:  idp.Cert(idp.RSAKey("spsign"), "sp-sign", nb, na),
			SPSign2: idp.Cert(idp.RSAKey("spsign2"), "sp-sign-2", nb, na),
		}
	})
	return w
}

// NewSP returns a fresh, conventionally configured service provider.
func (w *World) NewSP() *saml2.SAMLServiceProvider {
	return &saml2.SAMLServiceProvider{
		IdentityProviderSSOURL:      IdpSSO,
		IdentityProviderSLOURL:      IdpSLO,
		IdentityProviderIssuer:      IdpIssuer,
		AssertionConsumerServiceURL: ACS,
		ServiceProviderSLOURL:       SLO,
		ServiceProviderIssuer:       SPIssuer,
		AudienceURI:                 Audience,
		IDPCertificateStore:         &dsig.MemoryX509CertificateStore{Roots: []*x509.Certificate{w.IdpA.Cert}},
		Clock:                       dsig.NewFakeClockAt(Now),
		SPKeyStore:                  dsig.TLSCertKeyStore{Certificate: [][]byte{w.SP.DER}, PrivateKey: w.SP.Key},
	}
}

func RFC(t time.Time) string { return t.UTC().Format("2006-01-02T15:04:05.999999999Z07:00") }

// Content returns a fresh copy of a named assertion content.
func Content(name string) *idp.Assertion {
	mk := func(id, nameid, mail, role, sess string) *idp.Assertion {
		attrs := []idp.Attribute{
			{Name: "mail", FriendlyName: idp.S("Mail"), NameFormat: idp.S("urn:oasis:names:tc:SAML:2.0:attrname-format:basic"), Values: []string{mail}, XsiType: true},
			{Name: "roles", Values: []string{role, " user\n"}}, // a value whose surrounding white space is signed content
			{Name: "dept", Values: []string{`R&D <dev> "q" 'x' &amp; ]]`}}, // a value made of characters that serialisation must escape
		}
		return &idp.Assertion{
			ID: id, Version: "2.0", IssueInstant: RFC(Now.Add(-time.Second)), Issuer: idp.S(IdpIssuer),
			Subject: &idp.Subject{NameID: idp.S(nameid), NameIDFormat: idp.S("urn:oasis:names:tc:SAML:1.1:nameid-format:emailAddress"),
				Conf: &idp.SubjConf{Method: idp.Bearer, Data: &idp.SCData{Recipient: idp.S(ACS), NotOnOrAfter: idp.S(RFC(Now.Add(5 * time.Minute))), InResponseTo: idp.S("_req-1")}}},
			Conditions: &idp.Conditions{NotBefore: idp.S(RFC(Now.Add(-5 * time.Minute))), NotOnOrAfter: idp.S(RFC(Now.Add(5 * time.Minute))), AudRestr: [][]string{{Audience}}},
			Attrs:      &attrs,
			Authn:      &idp.Authn{SessionIndex: idp.S(sess), AuthnInstant: idp.S(RFC(Now.Add(-2 * time.Second))), ClassRef: "urn:oasis:names:tc:SAML:2.0:ac:classes:PasswordProtectedTransport"},
		}
	}
	switch name {
	case "GA1":
		return mk("_assert-a1", "alice@example.com", "alice@example.com", "staff", "sess-a1")
	case "GA2":
		return mk("_assert-a2", "bob@example.com", "bob@example.com", "guest", "sess-a2")
	case "FA":
		return mk("_assert-f1", "admin@example.com", "admin@example.com", "superuser", "sess-f1")
	case "CA":
		return mk("_assert-c1", "carrier@evil.example", "carrier@evil.example", "superuser", "sess-c1")
	}
	panic("unknown content " + name)
}

var ContentNames = []string{"GA1", "GA2", "FA", "CA"}

// FingerprintSpec renders the caller-visible fields of a generated assertion
// (ID excluded: forged content may pose under another ID).
func FingerprintSpec(a *idp.Assertion) string {
	var sb strings.Builder
	p := func(k string, v *string) {
		if v == nil {
			fmt.Fprintf(&sb, "%s=<nil>;", k)
		} else {
			fmt.Fprintf(&sb, "%s=%q;", k, *v)
		}
	}
	p("issuer", a.Issuer)
	if a.Subject != nil {
		p("nameid", a.Subject.NameID)
		if a.Subject.Conf != nil && a.Subject.Conf.Data != nil {
			p("recipient", a.Subject.Conf.Data.Recipient)
			p("scnoa", a.Subject.Conf.Data.NotOnOrAfter)
		}
	}
	if a.Conditions != nil {
		p("nb", a.Conditions.NotBefore)
		p("noa", a.Conditions.NotOnOrAfter)
		for _, ar := range a.Conditions.AudRestr {
			fmt.Fprintf(&sb, "ar=%q;", ar)
		}
	}
	if a.Attrs != nil {
		for _, at := range *a.Attrs {
			fmt.Fprintf(&sb, "attr %q=%q;", at.Name, at.Values)
		}
	}
	if a.Authn != nil {
		p("sess", a.Authn.SessionIndex)
	}
	return sb.String()
}

// FingerprintTypes renders the same fields of a decoded assertion.
func FingerprintTypes(a *types.Assertion) string {
	var sb strings.Builder
	p := func(k string, v *string) {
		if v == nil {
			fmt.Fprintf(&sb, "%s=<nil>;", k)
		} else {
			fmt.Fprintf(&sb, "%s=%q;", k, *v)
		}
	}
	if a.Issuer != nil {
		p("issuer", &a.Issuer.Value)
	} else {
		p("issuer", nil)
	}
	if a.Subject != nil {
		if a.Subject.NameID != nil {
			p("nameid", &a.Subject.NameID.Value)
		} else {
			p("nameid", nil)
		}
		if sc := a.Subject.SubjectConfirmation; sc != nil && sc.SubjectConfirmationData != nil {
			p("recipient", &sc.SubjectConfirmationData.Recipient)
			p("scnoa", &sc.SubjectConfirmationData.NotOnOrAfter)
		}
	}
	if c := a.Conditions; c != nil {
		p("nb", &c.NotBefore)
		p("noa", &c.NotOnOrAfter)
		for _, ar := range c.AudienceRestrictions {
			var vs []string
			for _, au := range ar.Audiences {
				vs = append(vs, au.Value)
			}
			fmt.Fprintf(&sb, "ar=%q;", vs)
		}
	}
	if a.AttributeStatement != nil {
		for _, at := range a.AttributeStatement.Attributes {
			var vs []string
			for _, v := range at.Values {
				vs = append(vs, v.Value)
			}
			fmt.Fprintf(&sb, "attr %q=%q;", at.Name, vs)
		}
	}
	if a.AuthnStatement != nil {
		p("sess", &a.AuthnStatement.SessionIndex)
	}
	return sb.String()
}

var (
	fpOnce sync.Once
	fps    map[string]string
)

// Identify names the content a decoded assertion is field-for-field equal to,
// or "unknown". Genuine contents must also carry their own ID.
func Identify(a *types.Assertion) string {
	fpOnce.Do(func() {
		fps = map[string]string{}
		for _, n := range ContentNames {
			fps[FingerprintSpec(Content(n))] = n
		}
	})
	n, ok := fps[FingerprintTypes(a)]
	if !ok {
		return "unknown"
	}
	if (n == "GA1" || n == "GA2") && a.ID != Content(n).ID {
		return "unknown"
	}
	return n
}
