// Package props maps each property to the specification families and monitors that decide it.
package props

import (
	"encoding/json"
	"fmt"

	"verifharness/fam"
	"verifharness/orch"
)

var trusted = []string{
	"TLC/SANY/CommunityModules and the JVM",
	"the abstraction of documents, keys and clocks in /verif/spec (calibrated to zero drift on the unchanged tree)",
	"the Go concretiser/projection in /verif/harness (IdP simulator, content identity by field comparison)",
	"goxmldsig Canonicalizer implementations reused by the simulated IdP; Go standard library crypto",
}

func All() map[string]orch.PropertySpec {
	return map[string]orch.PropertySpec{
		"C01": {ID: "C01", Level: "model_checking", Assumptions: trusted,
			Rule:  "cases are the attacker documents TLC enumerates from spec/Forgery.tla (root signature state x root ID x up to two kids with content, signature state, placement, encryption, ID collision) under signature checking and skip mode; each is made concrete (real XML, RSA signatures, XML-Enc, optional DEFLATE) and replayed; distinct = distinct abstract (cfg,input); every one is non-trivial (it reaches signature processing)",
			Parts: []orch.Part{{Family: fam.Forgery{}, Monitors: []string{"C01"}}, {Family: fam.Xmlenc{}, Monitors: []string{"C01"}}, {Family: fam.Reconf{}, Monitors: []string{"C01"}}, {Family: fam.Protocol{}, Monitors: []string{"P_STATE"}}}},
		"C02": {ID: "C02", Level: "model_checking", Assumptions: trusted,
			Rule:  "cases are all combinations TLC enumerates from spec/Trust.tla: message kind (SSO root-signed, SSO assertion-signed, LogoutRequest, LogoutResponse) x signing key (trusted A, trusted B, untrusted) x certificate shown (A, B, untrusted, none) x store composition (0..2 certificates) x SP clock relative to the staggered certificate windows x altered content, plus the root-signature states of spec/Forgery.tla; every case is replayed; non-trivial = a signature is present or the store is non-empty",
			Parts: []orch.Part{{Family: fam.Trust{}, Monitors: []string{"C02"}}, {Family: fam.Forgery{}, Monitors: []string{"C02"}}, {Family: fam.Logout{}, Monitors: []string{"C02"}}, {Family: fam.Reconf{}, Monitors: []string{"C02"}}}},
		"C03": {ID: "C03", Level: "model_checking", Assumptions: trusted,
			Rule:  "cases are all documents TLC enumerates from spec/Profile.tla: the all-correct Response with 0..3 assertions and every set of at most two deviations from a 43-entry fault catalogue (root: Version, Destination, Issuer, Status; per assertion position: Issuer, Subject, SubjectConfirmation, Method, SubjectConfirmationData, Recipient, NotOnOrAfter), signed by the simulated IdP at the Response or at every assertion, or unsigned in skip mode, with and without a configured issuer; all replayed through ValidateEncodedResponse and RetrieveAssertionInfo; non-trivial = every case (each reaches profile validation)",
			Parts: []orch.Part{{Family: fam.Profile{}, Monitors: []string{"C03"}}, {Family: fam.Time{}, Monitors: []string{"C03"}}}},
		"C05": {ID: "C05", Level: "model_checking", Assumptions: trusted,
			Rule:  "cases are all assignments TLC enumerates from spec/Time.tla of the SP clock, Conditions NotBefore, Conditions NotOnOrAfter and each assertion's SubjectConfirmationData NotOnOrAfter (1..2 assertions) to a tick or to absent / malformed, i.e. every relative order including all equalities; ticks are 500 ms apart and every bound is rendered in a seeded random RFC 3339 form (zone offset, fractional digits); all replayed; non-trivial = every case",
			Parts: []orch.Part{{Family: fam.Time{}, Monitors: []string{"C05"}}}},
		"C06": {ID: "C06", Level: "model_checking", Assumptions: trusted,
			Rule:  "cases are all condition shapes TLC enumerates from spec/Cond.tla: 0..3 AudienceRestrictions each with 0..2 Audience values over match / case variant / trailing slash / whitespace-padded / unrelated / empty, configured audience URI or the empty string, OneTimeUse present or absent, ProxyRestriction absent or with Count absent/0/1/5 and 0..2 audiences; a second assertion with contrary conditions is added on even seeds; all replayed through RetrieveAssertionInfo; non-trivial = every case",
			Parts: []orch.Part{{Family: fam.Cond{}, Monitors: []string{"C06"}}}},
		"C10": {ID: "C10", Level: "model_checking", Assumptions: trusted,
			Rule:  "cases are the full product TLC enumerates from spec/Logout.tla: LogoutRequest / LogoutResponse x Version ok/absent/wrong x Destination ok/absent/other x Issuer ok/absent/other x Status ok/absent/no code/non-success x signing state (unsigned, trusted, untrusted, tampered, genuine message wrapped in an unsigned outer one with a different / the same ID, signature relocated into a wrapper) x signature checking on/off x issuer configured or not, plus kind confusion (each of SSO Response, LogoutRequest, LogoutResponse given to each other validator), plus the logout kinds of spec/Trust.tla; all replayed, raw or DEFLATE by seed; non-trivial = every case",
			Parts: []orch.Part{{Family: fam.Logout{}, Monitors: []string{"C10"}}, {Family: fam.Trust{}, Monitors: []string{"C10"}}, {Family: fam.Reconf{}, Monitors: []string{"C10"}}, {Family: fam.Protocol{}, Monitors: []string{"P_STATE"}}}},
		"C04": {ID: "C04", Level: "model_checking", Assumptions: trusted,
			Rule:  "cases are the attacker documents of spec/Forgery.tla (signature-checking and skip mode), the signer/store/clock matrix of spec/Trust.tla for all four inbound kinds and the signing states of spec/Logout.tla; each replayed against the real code, flags of the Response, of every assertion, of the assertion-info summary and of logout messages projected; non-trivial = every case",
			Parts: []orch.Part{{Family: fam.Forgery{}, Monitors: []string{"C04"}}, {Family: fam.Trust{}, Monitors: []string{"C04"}}, {Family: fam.Logout{}, Monitors: []string{"C04"}}}},
		"C07": {ID: "C07", Level: "model_checking", Assumptions: trusted,
			Rule:  "cases are (a) every attacker document of spec/Forgery.tla with encrypted kids (forged / unsigned / re-signed plaintext encrypted to the SP certificate, in direct, wrapped and nested positions) and (b) the binding sub-space of spec/Xmlenc.tla: recipient certificate absent/match/mismatch x certificate-validation option x SP clock against the SP certificate window (edges included) x certificate form valid/empty/garbage x signed or unsigned Response x inline/detached key; all replayed; non-trivial = every case",
			Parts: []orch.Part{{Family: fam.Forgery{}, Monitors: []string{"C07"}}, {Family: fam.Xmlenc{}, Monitors: []string{"C07", "C01"}}, {Family: fam.Reconf{}, Monitors: []string{"C07"}}}},
		"C11": {ID: "C11", Level: "model_checking", Assumptions: append([]string{"for a declared OAEP digest the sender uses the same hash for MGF1 (the only reading under which the exported digest identifiers are usable with this library)"}, trusted...),
			Rule:  "cases are the round-trip sub-spaces of spec/Xmlenc.tla: every advertised data algorithm x {OAEP-MGF1P, OAEP 1.1} x {no digest, each exported digest identifier} and PKCS#1 v1.5 x inline/detached EncryptedKey x recipient certificate absent/matching x SP key supplied by key-store field (TLS store or plain store), by the setter, or both (same or different keys), each compared with its plaintext twin; plus DecryptBytes on random plaintexts of every length residue modulo 16, with and without trailing zero bytes; all replayed; non-trivial = every case",
			Parts: []orch.Part{{Family: fam.Xmlenc{}, Monitors: []string{"C11"}}, {Family: fam.Concur{}, Monitors: []string{"C11"}}}},
		"C12": {ID: "C12", Level: "model_checking", Assumptions: append([]string{"allocation is measured with runtime.MemStats.TotalAlloc around the call, serially; the bound is 16 x limit + 8 MiB (the unchanged tree allocates about 6 x limit on a bomb, an unbounded read at least the expansion)"}, trusted...),
			Rule:  "cases are the combinations TLC enumerates from spec/Inflate.tla: six inbound entry points x raw / DEFLATE levels 1, 6, 9 x decompressed size natural / limit-1 / limit / limit+1 / 100 x / 1000 x the effective limit x configured limit unset (5 MiB) / 1 / 2 KiB / 64 KiB x accepting / rejecting document; documents are padded with trailing whitespace to the exact size; every compressed case within the limit is compared with its raw twin; non-trivial = every case",
			Parts: []orch.Part{{Family: fam.Inflate{}, Monitors: []string{"C12"}}, {Family: fam.Concur{}, Monitors: []string{"C12"}}}},
		"C08": {ID: "C08", Level: "model_checking", Assumptions: append([]string{"value strings, attribute multisets and serialisation layout are seeded samples, not enumerated; single AttributeStatement; distinct attribute names for the map view"}, trusted...),
			Rule:  "structure enumerated by TLC from spec/Genuine.tla: signing placement (Response / every assertion / both) x 1..3 assertions x plain / encrypted x 6 canonicalisation algorithms x 4 digests x 8 signature algorithms (RSA, ECDSA) x KeyInfo present / absent x raw / DEFLATE x one- or two-certificate store; per case the IdP simulator draws NameID, attribute names, FriendlyName, NameFormat, 0..3 values per attribute, SessionIndex and instants over the XML character repertoire (markup characters, leading/trailing/inner whitespace incl. TAB/LF/CR, non-ASCII, astral, CDATA-end and comment fragments) and a layout (4 prefix styles, pretty-printing, comments, comment-split / CDATA text, attribute order, character references, quote style); every field is compared with the simulator's own data model; non-trivial = every case",
			Parts: []orch.Part{{Family: fam.Genuine{}, Monitors: []string{"C08"}}}},
		"C20": {ID: "C20", Level: "model_checking", Assumptions: trusted,
			Rule:  "every accepted case of the Genuine family (all layouts, raw and DEFLATE) and of the Forgery family (attacker-shaped roots, ID collisions, lifted signatures) is pre-decoded, and spec/Predecode.tla enumerates shadowing of the five fields on SSO Responses and LogoutResponses (namespace-qualified duplicates first/last, case variants, duplicated / nested / foreign-namespace Issuer) on unsigned and signed roots, raw and DEFLATE, with and without a configured issuer; every accepted case is pre-decoded with DecodeUnverifiedBaseResponse and the five fields compared with the validated result",
			Parts: []orch.Part{{Family: fam.Predecode{}, Monitors: []string{"C20"}}, {Family: fam.Genuine{}, Monitors: []string{"C20"}}, {Family: fam.Forgery{}, Monitors: []string{"C20"}}}},
		"C09": {ID: "C09", Level: "exploration", Assumptions: append([]string{"'for every byte string' is explored, not enumerated: TLC supplies the classes and positions, the driver the octets"}, trusted...),
			Rule:  "cases: (a) spec/Garbage.tla classes x 8 entry points (6 decoders + DecryptBytes + Decrypt) x normal / bare SP (empty store, no keys, no clock): 19 base-independent classes (bad base64, bad DEFLATE, non-XML, no root, wrong root, DOCTYPE entities, invalid UTF-8, undeclared prefixes, colon names, deep nesting, wide tree, many attributes, huge text, xmlns abuse ...), 7 positional damage classes at 7 (quick) / 25 (thorough) positions of 4 genuine messages, 18 structural damages of Signature / EncryptedData; (b) truncation and bit flip at every 11th (quick) / every (thorough) offset of each genuine message on its own entry points; (c) the ciphertext-shape sub-space of spec/Xmlenc.tla reached through an unsigned Response; (d) every case of the Forgery, Trust, Profile, Time and Logout families; distinct = distinct abstract (cfg,input); non-trivial = the input reaches the routine under test (DecryptBytes cases whose octets do not decode into an EncryptedAssertion are trivial)",
			Parts: []orch.Part{{Family: fam.Garbage{}, Monitors: []string{"C09"}}, {Family: fam.Xmlenc{}, Monitors: []string{"C09"}}, {Family: fam.Forgery{}, Monitors: []string{"C09"}}, {Family: fam.Logout{}, Monitors: []string{"C09"}}, {Family: fam.Time{}, Monitors: []string{"C09"}}},
		},
		"C13": {ID: "C13", Level: "model_checking", Assumptions: append([]string{"configuration strings are seeded samples of five classes, not enumerated"}, trusted...),
			Rule:   "cases TLC enumerates from spec/Outbound.tla: (keys) 15 key configurations (encryption / signing key by field, setter or both, four distinct key pairs) x 6 algorithm settings (unset, RSA-SHA1/256/384/512, ECDSA-SHA256 via setter) x 7 canonicaliser settings x 3 message kinds; (shape) every combination of the optional settings x string class; each message is serialised as the bindings do, re-parsed, and its signature analysed independently (SignedInfo canonicalised as declared, SignatureValue checked with crypto/rsa / crypto/ecdsa against all candidate keys, digest recomputed), plus reported and metadata certificates; non-trivial = every signed case",
			Custom: []orch.CustomStep{orch.RaceStep},
			Parts:  []orch.Part{{Family: fam.Outbound{}, Monitors: []string{"C13"}}, {Family: fam.SigningCtx{}, Monitors: []string{"C13"}}, {Family: fam.Concur{}, Monitors: []string{"C13"}}}},
		"C15": {ID: "C15", Level: "model_checking", Assumptions: append([]string{"configuration strings are seeded samples of five classes, not enumerated"}, trusted...),
			Rule:  "cases TLC enumerates from spec/Outbound.tla (shape and keys sub-spaces): ForceAuthn x IsPassive x NameIdFormat set/unset x RequestedAuthnContext nil / 0..2 contexts x SP issuer set or falling back x clock zone x string class x 3 message kinds; the output is parsed by expat and by encoding/xml (which must agree), children are checked against the SAML schema sequence in TLA+, every value is compared, and the element/attribute skeleton is compared with the one produced by benign strings; non-trivial = every case",
			Parts: []orch.Part{{Family: fam.Outbound{}, Monitors: []string{"C15"}}, {Family: fam.ReconfOut{}, Monitors: []string{"C15"}}, {Family: fam.Protocol{}, Monitors: []string{"P_SPMSG"}}}},
		"C19": {ID: "C19", Level: "model_checking", Assumptions: append([]string{"validity hours are bounded by what time.Duration can represent"}, trusted...),
			Rule:  "cases TLC enumerates from spec/Outbound.tla (meta sub-space): plain / single-logout variant x requested hours x AuthnRequestsSigned x skip-signature x string class x 12 key configurations x clock zone; the marshalled metadata is parsed by expat, compared with configuration, the published signing certificate with the key that verifies a message signed in the same run, the published encryption certificate with the key that decrypts a message encrypted to it in the same run; non-trivial = every case",
			Parts: []orch.Part{{Family: fam.Outbound{}, Monitors: []string{"C19"}}, {Family: fam.ReconfOut{}, Monitors: []string{"C19"}}}},
		"C14": {ID: "C14", Level: "model_checking", Assumptions: append([]string{"relay-state strings are seeded samples of their class"}, trusted...),
			Rule:  "cases TLC enumerates from spec/Bindings.tla (redirect): AuthnRequest via the Redirect binding, AuthnRequest via BuildAuthURLFromDocument, LogoutRequest x relay-state class (empty, plain, needs escaping, HTML, script, newline, non-ASCII, long, mixed) x IdP URL with / without existing query parameters x SignAuthnRequests x algorithm x 4 key configurations; the URL is analysed from its raw query string (split on & and = without decoding); SAMLRequest is percent-decoded, base64-decoded and raw-inflated and compared with the document; the signature is verified with bare crypto over the octets exactly as they appear; non-trivial = every case",
			Parts: []orch.Part{{Family: fam.Bindings{}, Monitors: []string{"C14"}}, {Family: fam.Concur{}, Monitors: []string{"C14"}}}},
		"C16": {ID: "C16", Level: "model_checking", Assumptions: append([]string{"relay-state strings are seeded samples of their class", "the page is tokenised by Python's html.parser; newline normalisation performed by browsers when a form is submitted is outside the library and not modelled"}, trusted...),
			Rule:  "cases TLC enumerates from spec/Bindings.tla (post): BuildAuthBodyPost, BuildAuthBodyPostFromDocument, BuildLogoutBodyPostFromDocument, BuildLogoutResponseBodyPostFromDocument x relay-state class x IdP URL shape x signed / unsigned; the page is tokenised by html.parser: one form, action = endpoint, one message field decoding to exactly the document, RelayState iff given and equal, a submitting script, and the tag/attribute-name skeleton equal to the one produced with a benign relay state in the same run; non-trivial = every case",
			Parts: []orch.Part{{Family: fam.Bindings{}, Monitors: []string{"C16"}}, {Family: fam.Concur{}, Monitors: []string{"C16"}}}},
		"C18": {ID: "C18", Level: "model_checking", Assumptions: append([]string{"'unpredictable' is reduced to provenance: every free bit of every identifier is a bit of one 16-octet read from crypto/rand.Reader, and no read is used twice; the quality of the operating system's generator is assumed", "crypto/rand.Reader is wrapped by a recording reader for the duration of the run"}, trusted...),
			Rule:  "TLC exhaustively checks the bit forcing and formatting of spec/IdGen.tla over the two affected octets; a history of 20 000 (quick) / 150 000 (thorough) message constructions across 3 kinds (+ the signing path), 4 SP instances and 8 goroutines is recorded with the octets drawn; the history is sorted and TLC checks on every line: identifier = '_' + canonical form of the draw with forced bits, legal xs:ID, exactly one matching draw, strictly greater than its predecessor (pairwise distinctness); distinct = distinct identifiers; non-trivial = every event",
			Parts: []orch.Part{{Family: fam.IdGen{}, Monitors: []string{"C18"}}}},
		"C17": {ID: "C17", Level: "model_checking", Assumptions: append([]string{"interleavings are controlled at the six observation points of SigningContext() (build tag verif); code between two points runs atomically with respect to the other controlled goroutines"}, trusted...),
			Rule:   "(a) TLC explores every interleaving of N goroutines x K calls of the PlusCal algorithm spec/SigningCtx.tla (quick 2x2, thorough 3x1) with mutual-exclusion, race-freedom, configured-before-visible and termination properties, and emits every complete schedule; each schedule is forced through the real SigningContext() with blocking gates while the goroutines run real signing operations (SigningContext, signed AuthnRequest / LogoutRequest / LogoutResponse); every result is checked against what the call returns alone (signature analysed independently); the observed event sequence is validated step by step against the algorithm by TLC; (b) every operation history of length <= 3 (quick) / 4 (thorough) over 10 public operations plus mutation of the previous result (spec/SpLife.tla) is replayed on one SP: configuration fingerprint before/after each call, result compared with the same call on a fresh SP; (c) a race-detector build runs sleep-slot-steered first-use schedules and an ungated mix of all public operations; distinct = distinct schedules / histories; non-trivial = every one",
			Custom: []orch.CustomStep{orch.RaceStep},
			Parts:  []orch.Part{{Family: fam.SigningCtx{}, Monitors: []string{"C17"}}, {Family: fam.SpLife{}, Monitors: []string{"C17"}}, {Family: fam.Reconf{}, Monitors: []string{"C17"}}, {Family: fam.ReconfOut{}, Monitors: []string{"C17"}}, {Family: fam.Concur{}, Monitors: []string{"C17"}}}},
	}
}

// Replay re-runs one stored case and reports whether the named monitor still fails.
func Replay(ps orch.PropertySpec, path string) int {
	c, mon := orch.LoadReplay(path)
	for _, p := range ps.Parts {
		if p.Family.Name() != c.Family {
			continue
		}
		rep := orch.RunFamily(p.Family, orch.Options{Tier: "quick", Seed: 1, OnlyCases: []orch.Case{*c}})
		for _, f := range rep.Fails {
			if f.Monitor == mon {
				b, _ := json.Marshal(f.Obs)
				fmt.Printf("VIOLATION property=%s replay=%s\n  monitor=%s observed=%s\n", ps.ID, path, mon, b)
				return 1
			}
		}
		fmt.Printf("replay %s: monitor %s holds now\n", path, mon)
		return 0
	}
	orch.Fatal("replay names family %s which does not serve %s", c.Family, ps.ID)
	return 2
}
