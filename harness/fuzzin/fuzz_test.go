//go:build verif

// Package fuzzin is the coverage-guided input generator for the Garbage family (C09): Go's native
// fuzzer mutates genuine messages against the real decoding entry points. It decides nothing by
// itself -- the inputs it keeps (new coverage) and any input it stops on are handed to the family
// as cases, replayed, and judged by TLC like every other case.
package fuzzin

import (
	"testing"

	"verifharness/fam"
)

func FuzzInbound(f *testing.F) {
	for _, s := range fam.FuzzSeeds() {
		f.Add(s.Data, s.Sel)
	}
	f.Fuzz(func(t *testing.T, data []byte, sel byte) {
		if len(data) > 1<<16 {
			return
		}
		if res := fam.FuzzCall(sel, data); res != "accept" && res != "reject" {
			t.Fatalf("entry %s: %s", fam.FuzzEntry(sel), res)
		}
	})
}
