package idp

import (
	"crypto"
	"crypto/ecdsa"
	"crypto/rand"
	"crypto/rsa"
	_ "crypto/sha1"
	_ "crypto/sha256"
	_ "crypto/sha512"
	"encoding/asn1"
	"encoding/base64"
	"fmt"
	"math/big"

	"github.com/beevik/etree"
	dsig "github.com/russellhaering/goxmldsig"
	"github.com/russellhaering/goxmldsig/etreeutils"
)

// Algorithm identifiers (written out here; not taken from the library under test).
const (
	C14NExc        = "http://www.w3.org/2001/10/xml-exc-c14n#"
	C14NExcCom     = "http://www.w3.org/2001/10/xml-exc-c14n#WithComments"
	C14N11         = "http://www.w3.org/2006/12/xml-c14n11"
	C14N11Com      = "http://www.w3.org/2006/12/xml-c14n11#WithComments"
	C14N10         = "http://www.w3.org/TR/2001/REC-xml-c14n-20010315"
	C14N10Com      = "http://www.w3.org/TR/2001/REC-xml-c14n-20010315#WithComments"
	TransEnveloped = "http://www.w3.org/2000/09/xmldsig#enveloped-signature"

	DigSHA1   = "http://www.w3.org/2000/09/xmldsig#sha1"
	DigSHA256 = "http://www.w3.org/2001/04/xmlenc#sha256"
	DigSHA384 = "http://www.w3.org/2001/04/xmldsig-more#sha384"
	DigSHA512 = "http://www.w3.org/2001/04/xmlenc#sha512"

	SigRSASHA1     = "http://www.w3.org/2000/09/xmldsig#rsa-sha1"
	SigRSASHA256   = "http://www.w3.org/2001/04/xmldsig-more#rsa-sha256"
	SigRSASHA384   = "http://www.w3.org/2001/04/xmldsig-more#rsa-sha384"
	SigRSASHA512   = "http://www.w3.org/2001/04/xmldsig-more#rsa-sha512"
	SigECDSASHA1   = "http://www.w3.org/2001/04/xmldsig-more#ecdsa-sha1"
	SigECDSASHA256 = "http://www.w3.org/2001/04/xmldsig-more#ecdsa-sha256"
	SigECDSASHA384 = "http://www.w3.org/2001/04/xmldsig-more#ecdsa-sha384"
	SigECDSASHA512 = "http://www.w3.org/2001/04/xmldsig-more#ecdsa-sha512"
)

var AllC14N = []string{C14NExc, C14NExcCom, C14N11, C14N11Com, C14N10, C14N10Com}
var AllDigests = []string{DigSHA1, DigSHA256, DigSHA384, DigSHA512}
var RSASigs = []string{SigRSASHA1, SigRSASHA256, SigRSASHA384, SigRSASHA512}
var ECDSASigs = []string{SigECDSASHA1, SigECDSASHA256, SigECDSASHA384, SigECDSASHA512}

var hashOfDigest = map[string]crypto.Hash{DigSHA1: crypto.SHA1, DigSHA256: crypto.SHA256, DigSHA384: crypto.SHA384, DigSHA512: crypto.SHA512}
var hashOfSig = map[string]crypto.Hash{
	SigRSASHA1: crypto.SHA1, SigRSASHA256: crypto.SHA256, SigRSASHA384: crypto.SHA384, SigRSASHA512: crypto.SHA512,
	SigECDSASHA1: crypto.SHA1, SigECDSASHA256: crypto.SHA256, SigECDSASHA384: crypto.SHA384, SigECDSASHA512: crypto.SHA512,
}

type SigOpts struct {
	C14N       string
	PrefixList string // exclusive c14n only; written as InclusiveNamespaces
	Digest     string
	SigAlg     string
	Key        crypto.Signer
	ShowCerts  [][]byte // DER certificates for KeyInfo; nil -> no KeyInfo
	RefURI     *string  // override Reference URI (default "#"+ID, or "" when no ID)
	DsPrefix   string   // default "ds"
	At         int      // child-element index to insert at; -1 -> after Issuer if present else first
}

func DefaultSig(key crypto.Signer, cert []byte) SigOpts {
	return SigOpts{C14N: C14NExc, Digest: DigSHA256, SigAlg: SigRSASHA256, Key: key, ShowCerts: [][]byte{cert}, At: -1}
}

func canonicalizer(alg, prefixList string) dsig.Canonicalizer {
	switch alg {
	case C14NExc:
		return dsig.MakeC14N10ExclusiveCanonicalizerWithPrefixList(prefixList)
	case C14NExcCom:
		return dsig.MakeC14N10ExclusiveWithCommentsCanonicalizerWithPrefixList(prefixList)
	case C14N11:
		return dsig.MakeC14N11Canonicalizer()
	case C14N11Com:
		return dsig.MakeC14N11WithCommentsCanonicalizer()
	case C14N10:
		return dsig.MakeC14N10RecCanonicalizer()
	case C14N10Com:
		return dsig.MakeC14N10WithCommentsCanonicalizer()
	}
	return nil
}

func isRoot(el *etree.Element) bool {
	return el.Parent() == nil || el.Parent().Tag == ""
}

// CanonicalInContext returns the canonical octets of el as a recipient that
// verifies el (detaching it from its parents first when it is not the document
// root) obtains them: in-scope namespaces are carried onto the detached copy,
// which is what canonicalisation of a document subset prescribes.
func CanonicalInContext(el *etree.Element, alg, prefixList string) ([]byte, error) {
	var work *etree.Element
	if isRoot(el) {
		work = el.Copy()
	} else {
		ctx, err := etreeutils.NSBuildParentContext(el)
		if err != nil {
			return nil, err
		}
		work, err = etreeutils.NSDetatch(ctx, el)
		if err != nil {
			return nil, err
		}
	}
	flattenCData(work)
	c := canonicalizer(alg, prefixList)
	if c == nil {
		return nil, fmt.Errorf("unknown c14n %q", alg)
	}
	return c.Canonicalize(work)
}

func mk(prefix, tag string) *etree.Element {
	e := etree.NewElement(tag)
	e.Space = prefix
	return e
}

// BuildSignature computes an enveloped signature for el as it currently stands
// (attached where it will stay) and returns the ds:Signature element, not inserted.
func BuildSignature(el *etree.Element, o SigOpts) (*etree.Element, error) {
	canon, err := CanonicalInContext(el, o.C14N, o.PrefixList)
	if err != nil {
		return nil, err
	}
	dh, ok := hashOfDigest[o.Digest]
	if !ok {
		return nil, fmt.Errorf("unknown digest %q", o.Digest)
	}
	h := dh.New()
	h.Write(canon)
	digest := h.Sum(nil)
	// the prefix bound to the XML-DSig namespace is the signer's choice ("ds" is a habit, not a rule): unless the
	// caller fixes it, it follows from the digest -- ds, dsig, sig, or no prefix at all (default namespace)
	ds := o.DsPrefix
	switch {
	case ds == "none":
		ds = ""
	case ds == "":
		ds = []string{"ds", "ds", "dsig", "sig", ""}[int(digest[0])%5]
	}

	uri := ""
	if a := el.SelectAttr("ID"); a != nil {
		uri = "#" + a.Value
	}
	if o.RefURI != nil {
		uri = *o.RefURI
	}

	sig := mk(ds, "Signature")
	if ds == "" {
		sig.CreateAttr("xmlns", NSDsig)
	} else {
		sig.CreateAttr("xmlns:"+ds, NSDsig)
	}
	si := mk(ds, "SignedInfo")
	sig.AddChild(si)
	cm := mk(ds, "CanonicalizationMethod")
	cm.CreateAttr("Algorithm", o.C14N)
	si.AddChild(cm)
	sm := mk(ds, "SignatureMethod")
	sm.CreateAttr("Algorithm", o.SigAlg)
	si.AddChild(sm)
	ref := mk(ds, "Reference")
	ref.CreateAttr("URI", uri)
	si.AddChild(ref)
	trs := mk(ds, "Transforms")
	ref.AddChild(trs)
	t1 := mk(ds, "Transform")
	t1.CreateAttr("Algorithm", TransEnveloped)
	trs.AddChild(t1)
	t2 := mk(ds, "Transform")
	t2.CreateAttr("Algorithm", o.C14N)
	if o.PrefixList != "" {
		inc := mk("ec", "InclusiveNamespaces")
		inc.CreateAttr("xmlns:ec", NSExc)
		inc.CreateAttr("PrefixList", o.PrefixList)
		t2.AddChild(inc)
	}
	trs.AddChild(t2)
	dm := mk(ds, "DigestMethod")
	dm.CreateAttr("Algorithm", o.Digest)
	ref.AddChild(dm)
	dv := mk(ds, "DigestValue")
	dv.SetText(base64.StdEncoding.EncodeToString(digest))
	ref.AddChild(dv)
	sv := mk(ds, "SignatureValue")
	sig.AddChild(sv)
	if o.ShowCerts != nil {
		ki := mk(ds, "KeyInfo")
		xd := mk(ds, "X509Data")
		ki.AddChild(xd)
		for _, c := range o.ShowCerts {
			xc := mk(ds, "X509Certificate")
			xc.SetText(base64.StdEncoding.EncodeToString(c))
			xd.AddChild(xc)
		}
		sig.AddChild(ki)
	}

	// SignedInfo is canonicalised in the context where the Signature will sit:
	// temporarily attach, compute, detach.
	el.AddChild(sig)
	ctx, err := etreeutils.NSBuildParentContext(si)
	if err == nil {
		var det *etree.Element
		det, err = etreeutils.NSDetatch(ctx, si)
		if err == nil {
			var sic dsig.Canonicalizer
			switch o.C14N {
			case C14NExc:
				sic = dsig.MakeC14N10ExclusiveCanonicalizerWithPrefixList("")
			case C14NExcCom:
				sic = dsig.MakeC14N10ExclusiveWithCommentsCanonicalizerWithPrefixList("")
			case C14N11, C14N10:
				sic = dsig.MakeC14N11Canonicalizer()
			default:
				sic = dsig.MakeC14N11WithCommentsCanonicalizer()
			}
			var sibytes []byte
			sibytes, err = sic.Canonicalize(det)
			if err == nil {
				var raw []byte
				raw, err = SignBytes(o.Key, o.SigAlg, sibytes)
				if err == nil {
					sv.SetText(base64.StdEncoding.EncodeToString(raw))
				}
			}
		}
	}
	el.RemoveChild(sig)
	if err != nil {
		return nil, err
	}
	return sig, nil
}

// SignBytes signs data with the hash named by the signature algorithm.
func SignBytes(key crypto.Signer, sigAlg string, data []byte) ([]byte, error) {
	hh, ok := hashOfSig[sigAlg]
	if !ok {
		return nil, fmt.Errorf("unknown signature algorithm %q", sigAlg)
	}
	h := hh.New()
	h.Write(data)
	sum := h.Sum(nil)
	switch k := key.(type) {
	case *rsa.PrivateKey:
		return rsa.SignPKCS1v15(rand.Reader, k, hh, sum)
	case *ecdsa.PrivateKey:
		return ecdsa.SignASN1(rand.Reader, k, sum)
	}
	return key.Sign(rand.Reader, sum, hh)
}

// VerifyBytes checks a raw signature with bare crypto primitives.
func VerifyBytes(pub crypto.PublicKey, sigAlg string, data, sig []byte) error {
	hh, ok := hashOfSig[sigAlg]
	if !ok {
		return fmt.Errorf("unknown signature algorithm %q", sigAlg)
	}
	h := hh.New()
	h.Write(data)
	sum := h.Sum(nil)
	switch k := pub.(type) {
	case *rsa.PublicKey:
		return rsa.VerifyPKCS1v15(k, hh, sum, sig)
	case *ecdsa.PublicKey:
		var rs struct{ R, S *big.Int }
		if _, err := asn1.Unmarshal(sig, &rs); err != nil {
			return err
		}
		if !ecdsa.Verify(k, sum, rs.R, rs.S) {
			return fmt.Errorf("ecdsa verification failed")
		}
		return nil
	}
	return fmt.Errorf("unsupported key type")
}

// InsertSignature puts sig into el right after the Issuer child (or first) unless at>=0.
func InsertSignature(el, sig *etree.Element, at int) {
	idx := 0
	if at >= 0 {
		kids := el.ChildElements()
		if at < len(kids) {
			idx = kids[at].Index()
		} else {
			idx = len(el.Child)
		}
	} else {
		for _, k := range el.ChildElements() {
			if k.Tag == "Issuer" {
				idx = k.Index() + 1
				break
			}
		}
	}
	el.InsertChildAt(idx, sig)
}

// Sign computes and inserts an enveloped signature.
func Sign(el *etree.Element, o SigOpts) (*etree.Element, error) {
	sig, err := BuildSignature(el, o)
	if err != nil {
		return nil, err
	}
	InsertSignature(el, sig, o.At)
	return sig, nil
}

// flattenCData turns CDATA sections into ordinary character data, which is how
// any parser presents them to canonicalisation.
func flattenCData(el *etree.Element) {
	for i, t := range el.Child {
		switch c := t.(type) {
		case *etree.CharData:
			if c.IsCData() {
				n := etree.NewText(c.Data)
				el.RemoveChildAt(i)
				el.InsertChildAt(i, n)
			}
		case *etree.Element:
			flattenCData(c)
		}
	}
}

// DigestB64 hashes data with the digest named by alg and returns base64.
func DigestB64(alg string, data []byte) (string, error) {
	h, ok := hashOfDigest[alg]
	if !ok {
		return "", fmt.Errorf("unknown digest %q", alg)
	}
	hh := h.New()
	hh.Write(data)
	return base64.StdEncoding.EncodeToString(hh.Sum(nil)), nil
}
