package idp

import (
	"crypto/x509"
	"fmt"
	"testing"
	"time"

	saml2 "github.com/russellhaering/gosaml2"
	dsig "github.com/russellhaering/goxmldsig"
)

func TestSmoke(t *testing.T) {
	lays := map[string]Layout{
		"none": {}, "pretty": {Pretty: true}, "decl": {XMLDecl: true}, "comments": {Comments: true}, "text1": {TextMode: 1}, "text2": {TextMode: 2},
		"shuffle": {Shuffle: true}, "charrefs": {CharRefs: true}, "xsi": {XsiType: true}, "squote": {SQuote: true},
		"all": {Pretty: true, XMLDecl: true, Comments: true, TextMode: 3, Shuffle: true, CharRefs: true, XsiType: true, SQuote: true},
	}
	for name, l := range lays {
		fmt.Println("=== layout", name)
		smoke(t, l)
	}
}

func smoke(t *testing.T, base Layout) {
	now := time.Date(2031, 5, 6, 7, 8, 9, 0, time.UTC)
	idpk := Cert(RSAKey("idp"), "idp", now.Add(-time.Hour), now.Add(time.Hour))
	eck := Cert(ECKey("idpec"), "idpec", now.Add(-time.Hour), now.Add(time.Hour))
	spk := Cert(RSAKey("sp"), "sp", now.Add(-time.Hour), now.Add(time.Hour))
	sp := &saml2.SAMLServiceProvider{
		IdentityProviderIssuer:      "https://idp.example/issuer",
		AssertionConsumerServiceURL: "https://sp.example/acs",
		AudienceURI:                 "https://sp.example/aud",
		IDPCertificateStore:         &dsig.MemoryX509CertificateStore{Roots: []*x509.Certificate{idpk.Cert, eck.Cert}},
		Clock:                       dsig.NewFakeClockAt(now),
		SPKeyStore:                  dsig.TLSCertKeyStore{Certificate: [][]byte{spk.DER}, PrivateKey: spk.Key},
	}
	ts := func(d time.Duration) *string { return S(now.Add(d).Format(time.RFC3339)) }
	total, ok := 0, 0
	for prefix := 0; prefix < 4; prefix++ {
		for ci, c14n := range AllC14N {
			for place := 0; place < 3; place++ {
				for enc := 0; enc < 2; enc++ {
					for kt := 0; kt < 2; kt++ {
						lay := base
						lay.Prefix = prefix
						if ci >= 2 && place != 0 && enc == 1 && prefix != 2 {
							continue // inclusive c14n of a standalone-signed, then encrypted assertion is context dependent
						}
						b := NewBuilder(lay, int64(total))
						attrs := []Attribute{{Name: "mail", Values: []string{"a<b>&c \"q\" é😀", " lead trail "}, XsiType: true, FriendlyName: S("fn")}, {Name: "empty", Values: []string{""}}}
						as := &Assertion{ID: "_a1", Version: "2.0", IssueInstant: now.Format(time.RFC3339), Issuer: S(sp.IdentityProviderIssuer),
							Subject:    &Subject{NameID: S("alice@example.com"), Conf: &SubjConf{Method: Bearer, Data: &SCData{Recipient: S(sp.AssertionConsumerServiceURL), NotOnOrAfter: ts(time.Minute)}}},
							Conditions: &Conditions{NotBefore: ts(-time.Minute), NotOnOrAfter: ts(time.Minute), AudRestr: [][]string{{sp.AudienceURI}}},
							Attrs:      &attrs, Authn: &Authn{SessionIndex: S("sess1"), AuthnInstant: ts(-time.Second)}}
						r := &Response{ID: "_r1", Version: S("2.0"), IssueInstant: now.Format(time.RFC3339), Destination: S(sp.AssertionConsumerServiceURL), Issuer: S(sp.IdentityProviderIssuer), HasStatus: true, StatusCode: S(StatusSuccess), InResponseTo: S("_req")}
						root := b.ResponseEl(r)
						ae := b.AssertionEl(as, enc == 1)
						so := DefaultSig(idpk.Key, idpk.DER)
						so.C14N = c14n
						so.Digest = AllDigests[total%4]
						so.SigAlg = RSASigs[total%4]
						if kt == 1 {
							so.Key, so.ShowCerts, so.SigAlg = eck.Key, [][]byte{eck.DER}, ECDSASigs[total%4]
						}
						if enc == 0 {
							root.AddChild(ae)
							b.Decorate(root)
							if place != 0 {
								if _, err := Sign(ae, so); err != nil {
									t.Fatal(err)
								}
							}
						} else {
							b.Decorate(ae)
							if place != 0 {
								if _, err := Sign(ae, so); err != nil {
									t.Fatal(err)
								}
							}
							plain := Serialize(ae, lay, b.Rng)
							ee, err := b.EncryptedAssertion(plain, EncOpts{DataAlg: DataAlgs[total%5], KeyTransport: KeyTransports[total%3], Pub: &RSAKey("sp").PublicKey, Detached: total%2 == 0, Recipient: spk.DER})
							if err != nil {
								t.Fatal(err)
							}
							root.AddChild(ee)
							b.Decorate(root)
						}
						if place != 1 {
							if _, err := Sign(root, so); err != nil {
								t.Fatal(err)
							}
						}
						doc := Serialize(root, lay, b.Rng)
						total++
						info, err := sp.RetrieveAssertionInfo(Encode(doc, total%2 == 0))
						if err != nil {
							fmt.Printf("FAIL prefix=%d c14n=%s place=%d enc=%d kt=%d: %v\n", prefix, c14n, place, enc, kt, err)
							continue
						}
						if info.NameID != "alice@example.com" || info.Values.Get("mail") != "a<b>&c \"q\" é😀" || info.Values.GetAll("mail")[1] != " lead trail " {
							fmt.Printf("BADVAL prefix=%d c14n=%s place=%d enc=%d: %q %q\n", prefix, c14n, place, enc, info.NameID, info.Values.GetAll("mail"))
							continue
						}
						ok++
					}
				}
			}
		}
	}
	fmt.Println("total", total, "ok", ok)
	if ok != total {
		t.Fail()
	}
}
