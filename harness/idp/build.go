package idp

import (
	"math/rand"
	"strconv"
	"strings"

	"github.com/beevik/etree"
)

// Layout selects one serialisation of a document. Everything here is either
// applied before signing (and therefore part of the signed content) or is
// canonicalisation-invariant (Serialize).
type Layout struct {
	Prefix   int  // 0 saml2p/saml2 declared where used, 1 samlp/saml on root only, 2 default namespaces, 3 odd prefixes + unused declarations
	Pretty   bool // inter-element whitespace
	XMLDecl  bool
	Comments bool // comments between elements
	TextMode int  // 0 plain, 1 comment-split, 2 CDATA, 3 mixed
	Shuffle  bool // shuffle attribute order
	CharRefs bool // serializer renders some characters as numeric references
	XsiType  bool
	SQuote   bool // serializer uses single quotes for attributes where possible
	LeadWS   bool // white space before the root element (only without an XML declaration) and after it
}

type Builder struct {
	L   Layout
	Rng *rand.Rand
}

func NewBuilder(l Layout, seed int64) *Builder {
	return &Builder{L: l, Rng: rand.New(rand.NewSource(seed))}
}

func (b *Builder) pfx() (p, a string) {
	switch b.L.Prefix {
	case 0:
		return "saml2p", "saml2"
	case 1:
		return "samlp", "saml"
	case 2:
		return "", ""
	default:
		return "p", "a"
	}
}

func nsAttr(el *etree.Element, prefix, uri string) {
	if prefix == "" {
		el.CreateAttr("xmlns", uri)
	} else {
		el.CreateAttr("xmlns:"+prefix, uri)
	}
}

// El creates an element in the given namespace class ("p" protocol, "a" assertion).
// declare says whether the element declares its namespace itself.
func (b *Builder) El(class, tag string, declare bool) *etree.Element {
	p, a := b.pfx()
	pre, uri := p, NSProtocol
	if class == "a" {
		pre, uri = a, NSAssertion
	}
	el := etree.NewElement(tag)
	el.Space = pre
	if declare || b.L.Prefix == 2 {
		nsAttr(el, pre, uri)
	}
	return el
}

func (b *Builder) child(parent *etree.Element, class, tag string) *etree.Element {
	el := b.El(class, tag, false)
	// default-namespace layout: only redeclare when the class changes
	if b.L.Prefix == 2 {
		el.Attr = nil
		if nsOfDefault(parent) != classURI(class) {
			nsAttr(el, "", classURI(class))
		}
	}
	parent.AddChild(el)
	return el
}

func classURI(class string) string {
	if class == "a" {
		return NSAssertion
	}
	return NSProtocol
}

func nsOfDefault(el *etree.Element) string {
	for e := el; e != nil; e = e.Parent() {
		for _, a := range e.Attr {
			if a.Space == "" && a.Key == "xmlns" {
				return a.Value
			}
		}
	}
	return ""
}

// Text sets a value as the text content of el using the layout's text mode.
func (b *Builder) Text(el *etree.Element, s string) {
	mode := b.L.TextMode
	if mode == 3 {
		mode = b.Rng.Intn(3)
	}
	r := []rune(s)
	switch {
	case mode == 1 && len(r) >= 1:
		k := b.Rng.Intn(len(r) + 1)
		if k > 0 {
			el.AddChild(etree.NewText(string(r[:k])))
		}
		el.AddChild(etree.NewComment(" c "))
		if k < len(r) {
			el.AddChild(etree.NewText(string(r[k:])))
		}
	case mode == 2 && len(r) >= 1 && !containsCDEnd(s) && !strings.ContainsRune(s, '\r'): // a CDATA section cannot carry a CR
		k := b.Rng.Intn(len(r) + 1)
		if k > 0 {
			el.AddChild(etree.NewText(string(r[:k])))
		}
		if k < len(r) {
			el.AddChild(etree.NewCData(string(r[k:])))
		}
	default:
		if s != "" {
			el.AddChild(etree.NewText(s))
		}
	}
}

func containsCDEnd(s string) bool {
	for i := 0; i+2 < len(s)+0; i++ {
		if i+3 <= len(s) && s[i:i+3] == "]]>" {
			return true
		}
	}
	return false
}

func (b *Builder) shuffle(el *etree.Element) {
	if !b.L.Shuffle {
		return
	}
	b.Rng.Shuffle(len(el.Attr), func(i, j int) { el.Attr[i], el.Attr[j] = el.Attr[j], el.Attr[i] })
}

// ResponseEl builds the root protocol element (without assertions).
func (b *Builder) ResponseEl(r *Response) *etree.Element {
	kind := r.Kind
	if kind == "" {
		kind = "Response"
	}
	el := b.El("p", kind, true)
	p, a := b.pfx()
	_ = p
	if b.L.Prefix == 1 || b.L.Prefix == 3 {
		nsAttr(el, a, NSAssertion)
	}
	if b.L.Prefix == 3 {
		el.CreateAttr("xmlns:xs", NSXs)
		el.CreateAttr("xmlns:xsi", NSXsi)
		el.CreateAttr("xmlns:unused", "urn:example:unused")
	}
	if !r.NoID {
		el.CreateAttr("ID", r.ID)
	}
	if r.Version != nil {
		el.CreateAttr("Version", *r.Version)
	}
	if r.IssueInstant != "" {
		el.CreateAttr("IssueInstant", r.IssueInstant)
	}
	if r.Destination != nil {
		el.CreateAttr("Destination", *r.Destination)
	}
	if r.InResponseTo != nil {
		el.CreateAttr("InResponseTo", *r.InResponseTo)
	}
	b.shuffle(el)
	if r.Issuer != nil {
		is := b.child(el, "a", "Issuer")
		if b.L.Prefix == 0 {
			nsAttr(is, "saml2", NSAssertion)
		}
		b.Text(is, *r.Issuer)
	}
	if kind == "LogoutRequest" {
		if r.NameID != nil {
			n := b.child(el, "a", "NameID")
			if b.L.Prefix == 0 {
				nsAttr(n, "saml2", NSAssertion)
			}
			b.Text(n, *r.NameID)
		}
		if r.SessionIndex != nil {
			b.Text(b.child(el, "p", "SessionIndex"), *r.SessionIndex)
		}
	} else if r.HasStatus {
		st := b.child(el, "p", "Status")
		if r.StatusCode != nil {
			sc := b.child(st, "p", "StatusCode")
			sc.CreateAttr("Value", *r.StatusCode)
			if r.SubStatus != nil {
				b.child(sc, "p", "StatusCode").CreateAttr("Value", *r.SubStatus)
			}
		}
	}
	return el
}

// AssertionEl builds an assertion. standalone=true makes it declare every
// namespace it needs (for encryption or use as a document root).
func (b *Builder) AssertionEl(as *Assertion, standalone bool) *etree.Element {
	el := b.El("a", "Assertion", standalone || b.L.Prefix == 0 || b.L.Prefix == 2)
	if standalone && b.L.Prefix == 3 {
		el.CreateAttr("xmlns:xs", NSXs)
		el.CreateAttr("xmlns:xsi", NSXsi)
	}
	b.fillAssertion(el, as)
	return el
}

func (b *Builder) fillAssertion(el *etree.Element, as *Assertion) {
	if !as.NoID {
		el.CreateAttr("ID", as.ID)
	}
	if as.Version != "" {
		el.CreateAttr("Version", as.Version)
	}
	if as.IssueInstant != "" {
		el.CreateAttr("IssueInstant", as.IssueInstant)
	}
	b.shuffle(el)
	if as.Issuer != nil {
		b.Text(b.child(el, "a", "Issuer"), *as.Issuer)
	}
	if s := as.Subject; s != nil {
		se := b.child(el, "a", "Subject")
		if s.NameID != nil {
			n := b.child(se, "a", "NameID")
			if s.NameIDFormat != nil {
				n.CreateAttr("Format", *s.NameIDFormat)
			}
			b.Text(n, *s.NameID)
		}
		if c := s.Conf; c != nil {
			ce := b.child(se, "a", "SubjectConfirmation")
			ce.CreateAttr("Method", c.Method)
			if d := c.Data; d != nil {
				de := b.child(ce, "a", "SubjectConfirmationData")
				if d.InResponseTo != nil {
					de.CreateAttr("InResponseTo", *d.InResponseTo)
				}
				if d.NotOnOrAfter != nil {
					de.CreateAttr("NotOnOrAfter", *d.NotOnOrAfter)
				}
				if d.Recipient != nil {
					de.CreateAttr("Recipient", *d.Recipient)
				}
				b.shuffle(de)
			}
		}
	}
	if c := as.Conditions; c != nil {
		ce := b.child(el, "a", "Conditions")
		if c.NotBefore != nil {
			ce.CreateAttr("NotBefore", *c.NotBefore)
		}
		if c.NotOnOrAfter != nil {
			ce.CreateAttr("NotOnOrAfter", *c.NotOnOrAfter)
		}
		b.shuffle(ce)
		for _, ar := range c.AudRestr {
			are := b.child(ce, "a", "AudienceRestriction")
			for _, au := range ar {
				b.Text(b.child(are, "a", "Audience"), au)
			}
		}
		if c.OneTimeUse {
			b.child(ce, "a", "OneTimeUse")
		}
		if p := c.Proxy; p != nil {
			pe := b.child(ce, "a", "ProxyRestriction")
			if p.Count != nil {
				pe.CreateAttr("Count", strconv.Itoa(*p.Count))
			}
			for _, au := range p.Audiences {
				b.Text(b.child(pe, "a", "Audience"), au)
			}
		}
	}
	if a := as.Authn; a != nil {
		ae := b.child(el, "a", "AuthnStatement")
		if a.AuthnInstant != nil {
			ae.CreateAttr("AuthnInstant", *a.AuthnInstant)
		}
		if a.SessionIndex != nil {
			ae.CreateAttr("SessionIndex", *a.SessionIndex)
		}
		if a.SessionNotOnOrAfter != nil {
			ae.CreateAttr("SessionNotOnOrAfter", *a.SessionNotOnOrAfter)
		}
		b.shuffle(ae)
		if a.ClassRef != "" {
			ac := b.child(ae, "a", "AuthnContext")
			b.Text(b.child(ac, "a", "AuthnContextClassRef"), a.ClassRef)
		}
	}
	if as.Attrs != nil {
		st := b.child(el, "a", "AttributeStatement")
		for _, at := range *as.Attrs {
			ate := b.child(st, "a", "Attribute")
			ate.CreateAttr("Name", at.Name)
			if at.FriendlyName != nil {
				ate.CreateAttr("FriendlyName", *at.FriendlyName)
			}
			if at.NameFormat != nil {
				ate.CreateAttr("NameFormat", *at.NameFormat)
			}
			b.shuffle(ate)
			for _, v := range at.Values {
				ve := b.child(ate, "a", "AttributeValue")
				if at.XsiType && b.L.XsiType {
					ve.CreateAttr("xmlns:xs", NSXs)
					ve.CreateAttr("xmlns:xsi", NSXsi)
					ve.CreateAttr("xsi:type", "xs:string")
				}
				b.Text(ve, v)
			}
		}
	}
}

// Wrapper builds a protocol-namespace wrapper element (e.g. Extensions).
func (b *Builder) Wrapper(tag string) *etree.Element {
	return b.El("p", tag, b.L.Prefix == 2)
}

// AdviceInto adds <Advice> holding child as the last-but-statement child of an assertion
// element (position after Conditions is schema-correct but irrelevant here).
func (b *Builder) AdviceInto(assertion, child *etree.Element) {
	adv := b.child(assertion, "a", "Advice")
	adv.AddChild(child)
}

// Decorate applies pre-signing layout noise (inter-element whitespace and comments)
// to the whole tree. It must run before any signature is computed.
func (b *Builder) Decorate(root *etree.Element) {
	if !b.L.Pretty && !b.L.Comments {
		return
	}
	b.decorate(root, 1)
}

func (b *Builder) decorate(el *etree.Element, depth int) {
	kids := el.ChildElements()
	if len(kids) == 0 {
		return
	}
	// only elements whose children are all elements (no value text)
	for _, t := range el.Child {
		if cd, ok := t.(*etree.CharData); ok && !cd.IsWhitespace() {
			return
		}
		if cd, ok := t.(*etree.CharData); ok && cd.IsCData() {
			return
		}
	}
	var out []etree.Token
	ind := "\n"
	for i := 0; i < depth; i++ {
		ind += "  "
	}
	for _, k := range kids {
		if b.L.Pretty {
			out = append(out, etree.NewText(ind))
		}
		if b.L.Comments && b.Rng.Intn(3) == 0 {
			out = append(out, etree.NewComment(" layout "))
		}
		out = append(out, k)
	}
	if b.L.Pretty {
		out = append(out, etree.NewText(ind[:len(ind)-2]))
	}
	for len(el.Child) > 0 {
		el.RemoveChildAt(0)
	}
	for _, t := range out {
		el.AddChild(t)
	}
	for _, k := range kids {
		b.decorate(k, depth+1)
	}
}
