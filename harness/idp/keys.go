package idp

import (
	"crypto"
	"crypto/ecdsa"
	"crypto/elliptic"
	"crypto/rand"
	"crypto/rsa"
	"crypto/x509"
	"crypto/x509/pkix"
	"math/big"
	"sync"
	"time"
)

// KeyPair is a private key with one certificate (DER + parsed).
type KeyPair struct {
	Key  crypto.Signer
	DER  []byte
	Cert *x509.Certificate
}

var (
	rsaPoolMu sync.Mutex
	rsaPool   = map[string]*rsa.PrivateKey{}
	ecPool    = map[string]*ecdsa.PrivateKey{}
	serial    int64
)

// RSAKey returns a process-wide cached RSA-2048 key for a name.
func RSAKey(name string) *rsa.PrivateKey {
	rsaPoolMu.Lock()
	defer rsaPoolMu.Unlock()
	if k, ok := rsaPool[name]; ok {
		return k
	}
	k, err := rsa.GenerateKey(rand.Reader, 2048)
	if err != nil {
		panic(err)
	}
	rsaPool[name] = k
	return k
}

// ECKey returns a cached P-256 key for a name.
func ECKey(name string) *ecdsa.PrivateKey {
	rsaPoolMu.Lock()
	defer rsaPoolMu.Unlock()
	if k, ok := ecPool[name]; ok {
		return k
	}
	k, err := ecdsa.GenerateKey(elliptic.P256(), rand.Reader)
	if err != nil {
		panic(err)
	}
	ecPool[name] = k
	return k
}

// Cert mints a self-signed certificate for key valid in [nb, na].
func Cert(key crypto.Signer, cn string, nb, na time.Time) *KeyPair {
	rsaPoolMu.Lock()
	serial++
	sn := serial
	rsaPoolMu.Unlock()
	tpl := &x509.Certificate{
		SerialNumber:          big.NewInt(sn),
		Subject:               pkix.Name{CommonName: cn},
		NotBefore:             nb,
		NotAfter:              na,
		KeyUsage:              x509.KeyUsageDigitalSignature | x509.KeyUsageKeyEncipherment,
		BasicConstraintsValid: true,
	}
	der, err := x509.CreateCertificate(rand.Reader, tpl, tpl, key.Public(), key)
	if err != nil {
		panic(err)
	}
	c, err := x509.ParseCertificate(der)
	if err != nil {
		panic(err)
	}
	return &KeyPair{Key: key, DER: der, Cert: c}
}
