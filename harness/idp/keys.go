package idp

import (
	"crypto"
	"crypto/ecdsa"
	"crypto/elliptic"
	"crypto/rand"
	"crypto/rsa"
	"crypto/x509"
	"crypto/x509/pkix"
	"math/big"
	"os"
	"path/filepath"
	"sync"
	"time"
)

// KeyPair is a private key with one certificate (DER + parsed).
type KeyPair struct {
	Key  crypto.Signer
	DER  []byte
	Cert *x509.Certificate
}

var (
	rsaPoolMu sync.Mutex
	rsaPool   = map[string]*rsa.PrivateKey{}
	ecPool    = map[string]*ecdsa.PrivateKey{}
	serial    int64
)

// RSAKey returns a process-wide cached RSA-2048 key for a name.
func RSAKey(name string) *rsa.PrivateKey {
	rsaPoolMu.Lock()
	defer rsaPoolMu.Unlock()
	if k, ok := rsaPool[name]; ok {
		return k
	}
	// a helper process started by the harness reuses the parent's keys (VERIF_KEYDIR) instead of generating its own
	if dir := os.Getenv("VERIF_KEYDIR"); dir != "" {
		if b, err := os.ReadFile(filepath.Join(dir, "rsa-"+name+".der")); err == nil {
			if k, err := x509.ParsePKCS1PrivateKey(b); err == nil {
				rsaPool[name] = k
				return k
			}
		}
	}
	k, err := rsa.GenerateKey(rand.Reader, 2048)
	if err != nil {
		panic(err)
	}
	rsaPool[name] = k
	return k
}

// DumpKeys writes the RSA keys generated so far into dir for helper processes (see RSAKey).
func DumpKeys(dir string) error {
	rsaPoolMu.Lock()
	defer rsaPoolMu.Unlock()
	if err := os.MkdirAll(dir, 0o700); err != nil {
		return err
	}
	for name, k := range rsaPool {
		if err := os.WriteFile(filepath.Join(dir, "rsa-"+name+".der"), x509.MarshalPKCS1PrivateKey(k), 0o600); err != nil {
			return err
		}
	}
	return nil
}

// ECKey returns a cached P-256 key for a name.
func ECKey(name string) *ecdsa.PrivateKey {
	rsaPoolMu.Lock()
	defer rsaPoolMu.Unlock()
	if k, ok := ecPool[name]; ok {
		return k
	}
	k, err := ecdsa.GenerateKey(elliptic.P256(), rand.Reader)
	if err != nil {
		panic(err)
	}
	ecPool[name] = k
	return k
}

// Cert mints a self-signed certificate for key valid in [nb, na].
func Cert(key crypto.Signer, cn string, nb, na time.Time) *KeyPair {
	rsaPoolMu.Lock()
	serial++
	sn := serial
	rsaPoolMu.Unlock()
	tpl := &x509.Certificate{
		SerialNumber:          big.NewInt(sn),
		Subject:               pkix.Name{CommonName: cn},
		NotBefore:             nb,
		NotAfter:              na,
		KeyUsage:              x509.KeyUsageDigitalSignature | x509.KeyUsageKeyEncipherment,
		BasicConstraintsValid: true,
	}
	der, err := x509.CreateCertificate(rand.Reader, tpl, tpl, key.Public(), key)
	if err != nil {
		panic(err)
	}
	c, err := x509.ParseCertificate(der)
	if err != nil {
		panic(err)
	}
	return &KeyPair{Key: key, DER: der, Cert: c}
}
