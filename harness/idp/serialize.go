package idp

import (
	"bytes"
	"compress/flate"
	"encoding/base64"
	"fmt"
	"math/rand"
	"strings"

	"github.com/beevik/etree"
)

// Serialize writes the tree with a writer of its own. Every choice it makes
// (quotes, numeric character references, empty-element form, whitespace inside
// tags, XML declaration) is invisible after canonicalisation, so signatures
// computed on the tree stay valid.
func Serialize(root *etree.Element, l Layout, rng *rand.Rand) []byte {
	var b bytes.Buffer
	if l.XMLDecl {
		b.WriteString(`<?xml version="1.0" encoding="UTF-8"?>`)
		if l.Pretty {
			b.WriteString("\n")
		}
	}
	if l.LeadWS && !l.XMLDecl {
		b.WriteString("\r\n  ")
	}
	w := &writer{b: &b, l: l, rng: rng}
	w.element(root)
	if l.LeadWS {
		b.WriteString("\n<!-- trailing -->\n")
	}
	return b.Bytes()
}

type writer struct {
	b   *bytes.Buffer
	l   Layout
	rng *rand.Rand

	noref bool
}

func (w *writer) name(space, tag string) string {
	if space == "" {
		return tag
	}
	return space + ":" + tag
}

func (w *writer) escape(s string, attr bool, quote byte) string {
	var sb strings.Builder
	for _, r := range s {
		switch {
		case r == '&':
			sb.WriteString("&amp;")
		case r == '<':
			sb.WriteString("&lt;")
		case r == '>':
			sb.WriteString("&gt;")
		case attr && r == rune(quote):
			if quote == '"' {
				sb.WriteString("&quot;")
			} else {
				sb.WriteString("&apos;")
			}
		case attr && (r == '\t' || r == '\n' || r == '\r'):
			fmt.Fprintf(&sb, "&#x%X;", r)
		case !attr && r == '\r':
			sb.WriteString("&#xD;")
		case w.l.CharRefs && !w.noref && r > ' ' && w.rng != nil && w.rng.Intn(7) == 0:
			if w.rng.Intn(2) == 0 {
				fmt.Fprintf(&sb, "&#x%X;", r)
			} else {
				fmt.Fprintf(&sb, "&#%d;", r)
			}
		default:
			sb.WriteRune(r)
		}
	}
	return sb.String()
}

func (w *writer) element(e *etree.Element) {
	w.b.WriteByte('<')
	w.b.WriteString(w.name(e.Space, e.Tag))
	for _, a := range e.Attr {
		w.b.WriteByte(' ')
		w.b.WriteString(w.name(a.Space, a.Key))
		w.b.WriteByte('=')
		q := byte('"')
		if w.l.SQuote && w.rng != nil && w.rng.Intn(2) == 0 {
			q = '\''
		}
		w.b.WriteByte(q)
		w.noref = a.Space == "xmlns" || (a.Space == "" && a.Key == "xmlns")
		w.b.WriteString(w.escape(a.Value, true, q))
		w.noref = false
		w.b.WriteByte(q)
	}
	if len(e.Child) == 0 {
		if w.rng != nil && w.l.SQuote && w.rng.Intn(2) == 0 {
			w.b.WriteString("></" + w.name(e.Space, e.Tag) + ">")
		} else {
			w.b.WriteString("/>")
		}
		return
	}
	w.b.WriteByte('>')
	for _, t := range e.Child {
		switch c := t.(type) {
		case *etree.Element:
			w.element(c)
		case *etree.CharData:
			if c.IsCData() {
				w.b.WriteString("<![CDATA[" + c.Data + "]]>")
			} else {
				w.b.WriteString(w.escape(c.Data, false, 0))
			}
		case *etree.Comment:
			w.b.WriteString("<!--" + c.Data + "-->")
		case *etree.ProcInst:
			w.b.WriteString("<?" + c.Target + " " + c.Inst + "?>")
		}
	}
	w.b.WriteString("</" + w.name(e.Space, e.Tag) + ">")
}

// Plain serialises with no layout noise.
func Plain(root *etree.Element) []byte {
	return Serialize(root, Layout{}, nil)
}

// Deflate raw-DEFLATEs data at the given level.
func Deflate(data []byte, level int) []byte {
	var b bytes.Buffer
	fw, _ := flate.NewWriter(&b, level)
	fw.Write(data)
	fw.Close()
	return b.Bytes()
}

// Encode base64-encodes, optionally after raw DEFLATE.
func Encode(data []byte, deflate bool) string {
	if deflate {
		data = Deflate(data, flate.DefaultCompression)
	}
	return base64.StdEncoding.EncodeToString(data)
}
