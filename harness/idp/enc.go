package idp

import (
	"crypto/aes"
	"crypto/cipher"
	"crypto/rand"
	"crypto/rsa"
	"crypto/sha1"
	"crypto/sha256"
	"crypto/sha512"
	"encoding/base64"
	"fmt"
	"hash"

	"github.com/beevik/etree"
)

// XML-Enc identifiers (written out; not taken from the library under test).
const (
	EncAES128GCM = "http://www.w3.org/2009/xmlenc11#aes128-gcm"
	EncAES192GCM = "http://www.w3.org/2009/xmlenc11#aes192-gcm"
	EncAES256GCM = "http://www.w3.org/2009/xmlenc11#aes256-gcm"
	EncAES128CBC = "http://www.w3.org/2001/04/xmlenc#aes128-cbc"
	EncAES256CBC = "http://www.w3.org/2001/04/xmlenc#aes256-cbc"

	KtOAEP   = "http://www.w3.org/2001/04/xmlenc#rsa-oaep-mgf1p"
	KtOAEP11 = "http://www.w3.org/2009/xmlenc11#rsa-oaep"
	KtPKCS1  = "http://www.w3.org/2001/04/xmlenc#rsa-1_5"

	// digest identifiers as exported by gosaml2/types (sic)
	EdSHA1   = "http://www.w3.org/2000/09/xmldsig#sha1"
	EdSHA256 = "http://www.w3.org/2000/09/xmldsig#sha256"
	EdSHA512 = "http://www.w3.org/2000/09/xmldsig#sha512"
)

var DataAlgs = []string{EncAES128GCM, EncAES192GCM, EncAES256GCM, EncAES128CBC, EncAES256CBC}
var KeyTransports = []string{KtOAEP, KtOAEP11, KtPKCS1}

func KeyLen(alg string) int {
	switch alg {
	case EncAES128GCM, EncAES128CBC:
		return 16
	case EncAES192GCM:
		return 24
	default:
		return 32
	}
}

func IsGCM(alg string) bool {
	return alg == EncAES128GCM || alg == EncAES192GCM || alg == EncAES256GCM
}

type EncOpts struct {
	DataAlg      string
	KeyTransport string
	Digest       string // "" -> no DigestMethod element
	EmptyDigest  bool   // DigestMethod element with empty Algorithm
	Detached     bool
	Recipient    []byte // DER shown in EncryptedKey/KeyInfo; nil -> absent
	Pub          *rsa.PublicKey

	// Malformation hooks (C09): when set they replace the honest values.
	RawCipher     []byte                     // final CipherValue octets (overrides encryption)
	MutatePlain   func(padded []byte) []byte // CBC: transform padded plaintext before encryption
	AlgAttr       *string                    // EncryptionMethod Algorithm attribute override for the data
	KtAttr        *string                    // key transport Algorithm attribute override
	WrappedKey    []byte                     // symmetric key octets actually wrapped (default: random of right size)
	RawWrapped    []byte                     // EncryptedKey CipherValue octets override
	OmitKeyCipher bool                       // no EncryptedKey CipherValue at all
	SymKey        []byte                     // fixed symmetric key (else random)
	WrapLastOctet *byte                      // the same for the wrapped key (RSA encryption is randomised)
	LastOctet     *byte                      // honest encryption repeated (fresh IV / nonce) until the ciphertext ends in this octet
}

func oaepHash(d string) (hash.Hash, error) {
	switch d {
	case "", EdSHA1:
		return sha1.New(), nil
	case EdSHA256:
		return sha256.New(), nil
	case EdSHA512:
		return sha512.New(), nil
	}
	return nil, fmt.Errorf("unknown digest %q", d)
}

// EncryptRaw encrypts plain under alg with key and returns the CipherValue octets
// (IV/nonce prepended), following XML Encryption 1.1.
func EncryptRaw(alg string, key, plain []byte, mutate func([]byte) []byte) ([]byte, error) {
	blk, err := aes.NewCipher(key)
	if err != nil {
		return nil, err
	}
	if IsGCM(alg) {
		g, err := cipher.NewGCM(blk)
		if err != nil {
			return nil, err
		}
		nonce := make([]byte, g.NonceSize())
		rand.Read(nonce)
		return append(nonce, g.Seal(nil, nonce, plain, nil)...), nil
	}
	bs := blk.BlockSize()
	pad := bs - len(plain)%bs
	padded := make([]byte, len(plain)+pad)
	copy(padded, plain)
	rand.Read(padded[len(plain) : len(padded)-1])
	padded[len(padded)-1] = byte(pad)
	if mutate != nil {
		padded = mutate(padded)
	}
	iv := make([]byte, bs)
	rand.Read(iv)
	out := make([]byte, len(padded))
	if len(padded)%bs == 0 && len(padded) > 0 {
		cipher.NewCBCEncrypter(blk, iv).CryptBlocks(out, padded)
	} else {
		out = padded
	}
	return append(iv, out...), nil
}

// WrapKey encrypts the symmetric key to the recipient.
func WrapKey(kt, digest string, pub *rsa.PublicKey, sym []byte) ([]byte, error) {
	switch kt {
	case KtOAEP, KtOAEP11:
		h, err := oaepHash(digest)
		if err != nil {
			return nil, err
		}
		return rsa.EncryptOAEP(h, rand.Reader, pub, sym, nil)
	case KtPKCS1:
		return rsa.EncryptPKCS1v15(rand.Reader, pub, sym)
	}
	return nil, fmt.Errorf("unknown key transport %q", kt)
}

// EncryptedAssertion wraps plain (the serialised assertion) into a
// saml:EncryptedAssertion element using the builder's prefix style.
func (b *Builder) EncryptedAssertion(plain []byte, o EncOpts) (*etree.Element, error) {
	sym := o.SymKey
	if sym == nil {
		sym = make([]byte, KeyLen(o.DataAlg))
		rand.Read(sym)
	}
	var ct []byte
	var err error
	if o.RawCipher != nil {
		ct = o.RawCipher
	} else {
		for try := 0; ; try++ {
			ct, err = EncryptRaw(o.DataAlg, sym, plain, o.MutatePlain)
			if err != nil {
				return nil, err
			}
			if o.LastOctet == nil || (len(ct) > 0 && ct[len(ct)-1] == *o.LastOctet) || try > 20000 {
				break
			}
		}
	}
	wrapSrc := sym
	if o.WrappedKey != nil {
		wrapSrc = o.WrappedKey
	}
	var wrapped []byte
	if o.RawWrapped != nil {
		wrapped = o.RawWrapped
	} else {
		for try := 0; ; try++ {
			wrapped, err = WrapKey(o.KeyTransport, o.Digest, o.Pub, wrapSrc)
			if err != nil {
				return nil, err
			}
			if o.WrapLastOctet == nil || (len(wrapped) > 0 && wrapped[len(wrapped)-1] == *o.WrapLastOctet) || try > 20000 {
				break
			}
		}
	}

	ea := b.El("a", "EncryptedAssertion", true)
	ed := mk("xenc", "EncryptedData")
	ed.CreateAttr("xmlns:xenc", NSXenc)
	ed.CreateAttr("Type", "http://www.w3.org/2001/04/xmlenc#Element")
	ea.AddChild(ed)
	em := mk("xenc", "EncryptionMethod")
	alg := o.DataAlg
	if o.AlgAttr != nil {
		alg = *o.AlgAttr
	}
	em.CreateAttr("Algorithm", alg)
	ed.AddChild(em)

	ek := mk("xenc", "EncryptedKey")
	kem := mk("xenc", "EncryptionMethod")
	kt := o.KeyTransport
	if o.KtAttr != nil {
		kt = *o.KtAttr
	}
	kem.CreateAttr("Algorithm", kt)
	if o.Digest != "" || o.EmptyDigest {
		dm := mk("ds", "DigestMethod")
		dm.CreateAttr("xmlns:ds", NSDsig)
		dm.CreateAttr("Algorithm", o.Digest)
		kem.AddChild(dm)
	}
	ek.AddChild(kem)
	if o.Recipient != nil {
		ki := mk("ds", "KeyInfo")
		ki.CreateAttr("xmlns:ds", NSDsig)
		xd := mk("ds", "X509Data")
		xc := mk("ds", "X509Certificate")
		xc.SetText(base64.StdEncoding.EncodeToString(o.Recipient))
		xd.AddChild(xc)
		ki.AddChild(xd)
		ek.AddChild(ki)
	}
	if !o.OmitKeyCipher {
		cd := mk("xenc", "CipherData")
		cv := mk("xenc", "CipherValue")
		cv.SetText(base64.StdEncoding.EncodeToString(wrapped))
		cd.AddChild(cv)
		ek.AddChild(cd)
	}

	if o.Detached {
		ek.CreateAttr("xmlns:xenc", NSXenc)
		ki := mk("ds", "KeyInfo")
		ki.CreateAttr("xmlns:ds", NSDsig)
		rm := mk("ds", "RetrievalMethod")
		rm.CreateAttr("URI", "#ek")
		ki.AddChild(rm)
		ed.AddChild(ki)
		ek.CreateAttr("Id", "ek")
	} else {
		ki := mk("ds", "KeyInfo")
		ki.CreateAttr("xmlns:ds", NSDsig)
		ki.AddChild(ek)
		ed.AddChild(ki)
	}
	cd := mk("xenc", "CipherData")
	cv := mk("xenc", "CipherValue")
	cv.SetText(base64.StdEncoding.EncodeToString(ct))
	cd.AddChild(cv)
	ed.AddChild(cd)
	if o.Detached {
		ea.AddChild(ek)
	}
	return ea, nil
}
