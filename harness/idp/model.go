// Package idp is a simulated SAML identity provider (and attacker toolbox) with
// a data model of its own, independent of gosaml2's types package. It renders
// the model to XML in a chosen layout, signs by constructing ds:Signature
// itself, encrypts with the standard library, and serialises with a writer of
// its own so that post-signing layout changes stay canonicalisation-invariant.
package idp

// S returns a pointer to s (optional string helper).
func S(s string) *string { return &s }

// I returns a pointer to i.
func I(i int) *int { return &i }

type Attribute struct {
	Name         string
	FriendlyName *string
	NameFormat   *string
	Values       []string
	XsiType      bool // render xsi:type="xs:string" on values
}

type SCData struct {
	Recipient    *string
	NotOnOrAfter *string
	InResponseTo *string
}

type SubjConf struct {
	Method string
	Data   *SCData
}

type Subject struct {
	NameID       *string
	NameIDFormat *string
	Conf         *SubjConf
}

type Proxy struct {
	Count     *int
	Audiences []string
}

type Conditions struct {
	NotBefore    *string
	NotOnOrAfter *string
	AudRestr     [][]string
	OneTimeUse   bool
	Proxy        *Proxy
}

type Authn struct {
	SessionIndex        *string
	AuthnInstant        *string
	SessionNotOnOrAfter *string
	ClassRef            string
}

type Assertion struct {
	ID           string
	NoID         bool
	Version      string
	IssueInstant string
	Issuer       *string
	Subject      *Subject
	Conditions   *Conditions
	Attrs        *[]Attribute
	Authn        *Authn
}

type Response struct {
	Kind         string // "Response" (default), "LogoutResponse", "LogoutRequest"
	ID           string
	NoID         bool
	InResponseTo *string
	Destination  *string
	Version      *string
	IssueInstant string
	Issuer       *string
	HasStatus    bool
	StatusCode   *string
	SubStatus    *string // second-level StatusCode nested in the first
	// LogoutRequest only
	NameID       *string
	SessionIndex *string
}

const (
	NSAssertion = "urn:oasis:names:tc:SAML:2.0:assertion"
	NSProtocol  = "urn:oasis:names:tc:SAML:2.0:protocol"
	NSDsig      = "http://www.w3.org/2000/09/xmldsig#"
	NSXenc      = "http://www.w3.org/2001/04/xmlenc#"
	NSXsi       = "http://www.w3.org/2001/XMLSchema-instance"
	NSXs        = "http://www.w3.org/2001/XMLSchema"
	NSExc       = "http://www.w3.org/2001/10/xml-exc-c14n#"

	StatusSuccess = "urn:oasis:names:tc:SAML:2.0:status:Success"
	Bearer        = "urn:oasis:names:tc:SAML:2.0:cm:bearer"
)
